// SPECIFICATION of unit U2 (DESIGN.md §6 C17, C13, C16, C04)

impl RawMutexLock {
    /// this call sequence won the compare_exchange(false -> true) on the lock word
    pub open spec fn acquired(&self) -> bool { self.locked.cas_acquired() }
    pub open spec fn was_released(&self) -> bool { self.locked.released() }
}

impl<T> Signal<T> {
    /// constructed in state LOCKED (a signal may be published only in that state)
    pub open spec fn armed(&self) -> bool { self.state.init() == LOCKED }
    pub open spec fn wakes(&self, w: Waker) -> bool { self.waker matches KanalWaker::Async(x) && x == w }
    /// this thread has published the final state `st` of the signal with release semantics
    pub open spec fn published(&self, st: u8) -> bool {
        exists|o: Ordering| is_release(o) && #[trigger] self.state.stored(st, o)
    }
    pub open spec fn seen_unlocked(&self) -> bool { self.state.observed(UNLOCKED) }
    pub open spec fn seen_terminated(&self) -> bool { self.state.observed(TERMINATED) }
}

// L-MUTEX (DESIGN.md §6 C17): in any interleaving of the two atomic steps that the contracts of
// try_lock / unlock allow on the lock word -- a winning compare_exchange(false -> true) and a store(false)
// by the current holder -- at most one thread holds the lock.  `holders` = number of threads between a
// winning CAS and their store(false); the lock word is true iff holders == 1.
pub ghost struct LockWord { pub locked: bool, pub holders: int }
pub open spec fn lw_inv(s: LockWord) -> bool { (s.locked <==> s.holders == 1) && 0 <= s.holders <= 1 }
pub open spec fn lw_cas(s: LockWord) -> (LockWord, bool) {
    if !s.locked { (LockWord { locked: true, holders: s.holders + 1 }, true) } else { (s, false) }
}
pub open spec fn lw_unlock(s: LockWord) -> LockWord
    recommends s.holders == 1
{ LockWord { locked: false, holders: s.holders - 1 } }
pub proof fn lemma_mutex_step(s: LockWord)
    requires lw_inv(s),
    ensures lw_inv(lw_cas(s).0), lw_cas(s).1 ==> !s.locked, s.holders == 1 ==> lw_inv(lw_unlock(s)),
{}
