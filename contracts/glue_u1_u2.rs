// GLUE between unit U1 and unit U2 (DESIGN.md §3.4 "assume/guarantee closure").
//
// U1 (prelude_u1.rs) ASSUMES contracts for the pointer-free functions of signal.rs, phrased over the
// prophecy `delivered`.  U2 PROVES contracts for the real text of the same functions, phrased over what the
// calling thread has observed in the signal's state word.  This file proves, for each such function, that
// U2's proved post-condition together with the protocol axiom R2a implies the post-condition U1 assumes.
// What remains assumed is therefore exactly: R2a (below), the payload-visibility half of R2 (ptr_filled /
// received), and `seen_terminated ==> is_terminated()` (temporal finality), all listed in the evidence.
//
// The clause texts are quoted from contracts/u2.kc (hypotheses) and contracts/prelude_u1.rs (conclusions);
// the driver checks that the quoted obligation ids still exist in those files.
use vstd::prelude::*;
verus! {

pub enum PollBool { Pending, Ready(bool) }

/// the facts about one signal that the two units talk about
pub ghost struct SigFacts {
    pub seen_unlocked: bool,     // U2: self.state.observed(UNLOCKED)
    pub seen_terminated: bool,   // U2: self.state.observed(TERMINATED)
    pub delivered: bool,         // U1: prophecy "ends UNLOCKED"
    pub reached_deadline: bool,  // both: reached(until)
}

/// R2a (assumed, signal protocol): UNLOCKED and TERMINATED are final and exclusive states of a signal, so a
/// thread that has observed UNLOCKED knows the signal ends UNLOCKED, one that has observed TERMINATED knows it
/// does not.
pub open spec fn r2a(f: SigFacts) -> bool {
    (f.seen_unlocked ==> f.delivered) && (f.seen_terminated ==> !f.delivered)
}

// [U2 O-poll.final-only]  ==>  [U1 Signal::poll: r matches Ready(b) ==> b == self.delivered()]
pub proof fn lemma_glue_poll(f: SigFacts, r: PollBool)
    requires r2a(f),
        (r == PollBool::Ready(true) ==> f.seen_unlocked) && (r == PollBool::Ready(false) ==> f.seen_terminated),
    ensures r matches PollBool::Ready(b) ==> b == f.delivered,
{}

// [U2 O-abw.final-only]  ==>  [U1 Signal::async_blocking_wait: b == self.delivered()]
pub proof fn lemma_glue_async_blocking_wait(f: SigFacts, b: bool)
    requires r2a(f), (b ==> f.seen_unlocked) && (!b ==> f.seen_terminated),
    ensures b == f.delivered,
{}

// [U2 O-wait_timeout.success, O-not-early]  ==>  [U1 Signal::wait_timeout: b ==> delivered; !b ==> reached(until) || seen_terminated]
pub proof fn lemma_glue_wait_timeout(f: SigFacts, b: bool)
    requires r2a(f), b ==> f.seen_unlocked, !b ==> f.reached_deadline || f.seen_terminated,
    ensures b ==> f.delivered, !b ==> f.reached_deadline || f.seen_terminated,
{}

// [U2 O-wait.final-only]  ==>  [U1 Signal::wait (T5): b == self.delivered()]
pub proof fn lemma_glue_wait(f: SigFacts, b: bool)
    requires r2a(f), (b ==> f.seen_unlocked) && (!b ==> f.seen_terminated),
    ensures b == f.delivered,
{}

// [U2 O-is_terminated]  ==>  [U1 Signal::is_terminated: b ==> !self.delivered()]
pub proof fn lemma_glue_is_terminated(f: SigFacts, b: bool)
    requires r2a(f), b ==> f.seen_terminated,
    ensures b ==> !f.delivered,
{}

// consequence used by C13 (O-not-early at the level of the timed operations): a timed wait that reports
// failure without a termination having been observed has reached its deadline
pub proof fn lemma_glue_timeout_not_early(f: SigFacts, wait_ok: bool, is_term: bool)
    requires r2a(f), !wait_ok ==> f.reached_deadline || f.seen_terminated,
        f.seen_terminated ==> is_term,   // temporal finality, assumed in U1's is_terminated contract
        !wait_ok, !is_term,
    ensures f.reached_deadline,
{}

} // verus!
fn main() {}
