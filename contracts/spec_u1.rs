// SPECIFICATION of unit U1 (DESIGN.md §3.5, Appendix A): lock invariant, abstraction function and the
// reference channel.  Written from the property statements C01-C19, not from the code.

// ------------------------------------------------------------------ lock invariant
pub open spec fn wf<T>(c: ChannelInternal<T>) -> bool {
    // W1 the buffer never exceeds the capacity                                   (C08)
    &&& c.queue@.len() <= c.capacity
    // W2 senders wait only on a full buffer                                       (C02, C08)
    &&& (!c.recv_blocking && c.wait_list@.len() > 0 ==> c.queue@.len() == c.capacity)
    // W3 receivers wait only on an empty buffer                                   (C02)
    &&& (c.recv_blocking && c.wait_list@.len() > 0 ==> c.queue@.len() == 0)
    // W4 nobody waits on a dead side                                                (C10, C11)
    &&& ((c.recv_count == 0 || c.send_count == 0) ==> c.wait_list@.len() == 0)
}

// ------------------------------------------------------------------ abstraction
/// the ideal channel: buffer, blocked senders, blocked receivers, capacity, handle counts
pub ghost struct A<T> {
    pub q: Seq<T>,
    pub s: Seq<SignalTerminator<T>>,
    pub r: Seq<SignalTerminator<T>>,
    pub cap: int,
    pub rc: int,
    pub sc: int,
}

pub open spec fn senders<T>(c: ChannelInternal<T>) -> Seq<SignalTerminator<T>> {
    if c.recv_blocking { Seq::empty() } else { c.wait_list@ }
}
pub open spec fn receivers<T>(c: ChannelInternal<T>) -> Seq<SignalTerminator<T>> {
    if c.recv_blocking { c.wait_list@ } else { Seq::empty() }
}
pub open spec fn alpha<T>(c: ChannelInternal<T>) -> A<T> {
    A { q: c.queue@, s: senders(c), r: receivers(c), cap: c.capacity as int, rc: c.recv_count as int, sc: c.send_count as int }
}
/// everything accepted and not yet taken, in acceptance order (C01, C02)
pub open spec fn logical<T>(a: A<T>) -> Seq<T> {
    a.q + a.s.map_values(|t: SignalTerminator<T>| payload(t))
}
pub open spec fn closed<T>(a: A<T>) -> bool { a.rc == 0 && a.sc == 0 }

/// extensional equality of abstract states
pub open spec fn aeq<T>(x: A<T>, y: A<T>) -> bool {
    x.q =~= y.q && x.s =~= y.s && x.r =~= y.r && x.cap == y.cap && x.rc == y.rc && x.sc == y.sc
}
pub open spec fn same_meta<T>(x: ChannelInternal<T>, y: ChannelInternal<T>) -> bool {
    x.capacity == y.capacity && x.recv_count == y.recv_count && x.send_count == y.send_count
}

// ------------------------------------------------------------------ reference channel: send-type step (Appendix A, s1-s4)
pub enum SendClass { Closed, ReceiveClosed, Handoff, Buffered, Full }

pub open spec fn ref_send_class<T>(a: A<T>) -> SendClass {
    if a.rc == 0 {
        if a.sc == 0 { SendClass::Closed } else { SendClass::ReceiveClosed }
    } else if a.r.len() > 0 {
        SendClass::Handoff
    } else if a.q.len() < a.cap {
        SendClass::Buffered
    } else {
        SendClass::Full
    }
}
/// post-state of the non-registering part of a send-type step
pub open spec fn ref_send_post<T>(a: A<T>, d: T) -> A<T> {
    match ref_send_class(a) {
        SendClass::Handoff => A { r: a.r.skip(1), ..a },
        SendClass::Buffered => A { q: a.q.push(d), ..a },
        _ => a,
    }
}
pub open spec fn ref_send_handoff<T>(a: A<T>, d: T) -> Seq<(SignalTerminator<T>, T)> {
    if ref_send_class(a) is Handoff { seq![(a.r[0], d)] } else { Seq::empty() }
}
/// s4 for blocking / pending senders: register `t` (whose payload is `d`) at the tail of the sender list
pub open spec fn ref_send_register<T>(a: A<T>, t: SignalTerminator<T>) -> A<T> {
    A { s: a.s.push(t), ..a }
}

// ------------------------------------------------------------------ reference channel: receive-type step (r1-r7)
pub enum RecvClass { Closed, BufferRefill, Buffer, Direct, SendClosed, Empty }

pub open spec fn ref_recv_class<T>(a: A<T>) -> RecvClass {
    if a.rc == 0 {
        RecvClass::Closed
    } else if a.q.len() > 0 {
        if a.s.len() > 0 { RecvClass::BufferRefill } else { RecvClass::Buffer }
    } else if a.s.len() > 0 {
        RecvClass::Direct
    } else if a.sc == 0 {
        RecvClass::SendClosed
    } else {
        RecvClass::Empty
    }
}
pub open spec fn ref_recv_post<T>(a: A<T>) -> A<T> {
    match ref_recv_class(a) {
        RecvClass::BufferRefill => A { q: a.q.skip(1).push(payload(a.s[0])), s: a.s.skip(1), ..a },
        RecvClass::Buffer => A { q: a.q.skip(1), ..a },
        RecvClass::Direct => A { s: a.s.skip(1), ..a },
        _ => a,
    }
}
pub open spec fn ref_recv_value<T>(a: A<T>) -> Option<T> {
    match ref_recv_class(a) {
        RecvClass::BufferRefill | RecvClass::Buffer => Some(a.q[0]),
        RecvClass::Direct => Some(payload(a.s[0])),
        _ => None,
    }
}
pub open spec fn ref_recv_taken<T>(a: A<T>) -> Seq<SignalTerminator<T>> {
    match ref_recv_class(a) {
        RecvClass::BufferRefill | RecvClass::Direct => seq![a.s[0]],
        _ => Seq::empty(),
    }
}
pub open spec fn ref_recv_register<T>(a: A<T>, t: SignalTerminator<T>) -> A<T> {
    A { r: a.r.push(t), ..a }
}

// ------------------------------------------------------------------ close / handles
pub open spec fn ref_close_post<T>(a: A<T>) -> A<T> {
    if closed(a) { a } else { A { q: Seq::empty(), s: Seq::empty(), r: Seq::empty(), rc: 0, sc: 0, ..a } }
}
pub open spec fn ref_clone_sender<T>(a: A<T>) -> A<T> { if a.sc > 0 { A { sc: a.sc + 1, ..a } } else { a } }
pub open spec fn ref_clone_receiver<T>(a: A<T>) -> A<T> { if a.rc > 0 { A { rc: a.rc + 1, ..a } } else { a } }
pub open spec fn ref_drop_sender<T>(a: A<T>) -> A<T> {
    if a.sc == 0 { a }
    else if a.sc == 1 && a.rc != 0 { A { sc: 0, s: Seq::empty(), r: Seq::empty(), ..a } }
    else { A { sc: a.sc - 1, ..a } }
}
pub open spec fn ref_drop_receiver<T>(a: A<T>) -> A<T> {
    if a.rc == 0 { a }
    else if a.rc == 1 && a.sc != 0 { A { rc: 0, s: Seq::empty(), r: Seq::empty(), ..a } }
    else { A { rc: a.rc - 1, ..a } }
}
/// waiters released with an error by dropping the last handle of a side while the other side lives
pub open spec fn ref_drop_sender_terminated<T>(a: A<T>) -> Seq<SignalTerminator<T>> {
    if a.sc == 1 && a.rc != 0 { a.s + a.r } else { Seq::empty() }
}
pub open spec fn ref_drop_receiver_terminated<T>(a: A<T>) -> Seq<SignalTerminator<T>> {
    if a.rc == 1 && a.sc != 0 { a.s + a.r } else { Seq::empty() }
}

// ------------------------------------------------------------------ shapes of a call's effect log
/// exactly one critical section
pub open spec fn one_cs<T>(fx: Fx<T>) -> bool { fx.cs.len() == 1 }
pub open spec fn pre0<T>(fx: Fx<T>) -> A<T> { alpha(fx.cs[0].pre) }
pub open spec fn post0<T>(fx: Fx<T>) -> A<T> { alpha(fx.cs[0].post) }
/// lock invariant re-established at every guard death of this call  (O-wf-release)
pub open spec fn wf_release<T>(fx: Fx<T>) -> bool {
    forall|k: int| 0 <= k < fx.cs.len() ==> (wf(#[trigger] fx.cs[k].pre) ==> wf(fx.cs[k].post))
}
/// no waiter was taken off the list and then forgotten; nothing was used that was not popped (O-pop-used / O-own-pop)
pub open spec fn pops_used<T>(fx: Fx<T>) -> bool {
    fx.used =~= fx.popped
}
pub open spec fn no_effects<T>(fx: Fx<T>) -> bool {
    fx.sent.len() == 0 && fx.taken.len() == 0 && fx.terminated.len() == 0
}

// ------------------------------------------------------------------ result functions of the reference channel
pub open spec fn try_send_result<T>(a: A<T>) -> Result<bool, SendError> {
    match ref_send_class(a) {
        SendClass::Closed => Err(SendError::Closed),
        SendClass::ReceiveClosed => Err(SendError::ReceiveClosed),
        SendClass::Handoff | SendClass::Buffered => Ok(true),
        SendClass::Full => Ok(false),
    }
}
pub open spec fn try_recv_result<T>(a: A<T>) -> Result<Option<T>, ReceiveError> {
    match ref_recv_class(a) {
        RecvClass::Closed => Err(ReceiveError::Closed),
        RecvClass::SendClosed => Err(ReceiveError::SendClosed),
        RecvClass::Empty => Ok(None),
        _ => Ok(ref_recv_value(a)),
    }
}
/// the value moved iff the class is Handoff or Buffered
pub open spec fn send_moved<T>(a: A<T>) -> bool { ref_send_class(a) is Handoff || ref_send_class(a) is Buffered }

/// a complete non-blocking send-type call with exactly one critical section (O-step)
pub open spec fn send_step<T>(fx: Fx<T>, d: T) -> bool {
    &&& aeq(post0(fx), ref_send_post(pre0(fx), d))
    &&& fx.sent =~= ref_send_handoff(pre0(fx), d)
    &&& fx.taken.len() == 0 && fx.terminated.len() == 0
}
pub open spec fn recv_step<T>(fx: Fx<T>) -> bool {
    &&& aeq(post0(fx), ref_recv_post(pre0(fx)))
    &&& fx.taken =~= ref_recv_taken(pre0(fx))
    &&& fx.sent.len() == 0 && fx.terminated.len() == 0
}
/// an observer: one critical section that changes nothing
pub open spec fn observed<T>(fx: Fx<T>) -> bool {
    &&& fx.cs.len() == 1 && !fx.held
    &&& fx.cs[0].post == fx.cs[0].pre
    &&& no_effects(fx)
    &&& fx.popped == Multiset::<(SignalTerminator<T>, Role)>::empty()
}
/// a call that did not enter any critical section and had no effect (realtime variants when the lock is busy)
pub open spec fn no_section<T>(fx: Fx<T>) -> bool {
    fx.cs.len() == 0 && !fx.held && no_effects(fx) && fx.popped == Multiset::<(SignalTerminator<T>, Role)>::empty()
}
pub open spec fn nothing_registered<T>(fx: Fx<T>) -> bool {
    forall|k: int| 0 <= k < fx.cs.len() ==> (#[trigger] alpha(fx.cs[k].post)).s.len() <= alpha(fx.cs[k].pre).s.len() && alpha(fx.cs[k].post).r.len() <= alpha(fx.cs[k].pre).r.len()
}

// ------------------------------------------------------------------ blocking operations: register + complete (Appendix A, s4 / r7)
/// first section of a blocking / timed / pending send: either a complete non-registering step, or
/// (class Full) the caller's waiter is appended to the sender list with the caller's value as payload
pub open spec fn send_first_section<T>(fx: Fx<T>, d: T) -> bool {
    let a = pre0(fx);
    let b = post0(fx);
    if ref_send_class(a) is Full {
        &&& b.s.len() == a.s.len() + 1
        &&& aeq(b, ref_send_register(a, b.s.last()))
        &&& payload(b.s.last()) == d
        &&& no_effects(fx)
    } else {
        send_step(fx, d)
    }
}
/// the waiter this call registered (meaningful when the class of the first section is Full / Empty)
pub open spec fn my_sender<T>(fx: Fx<T>) -> SignalTerminator<T> { post0(fx).s.last() }
pub open spec fn my_receiver<T>(fx: Fx<T>) -> SignalTerminator<T> { post0(fx).r.last() }

pub open spec fn send_result<T>(fx: Fx<T>) -> Result<(), SendError> {
    match ref_send_class(pre0(fx)) {
        SendClass::Closed => Err(SendError::Closed),
        SendClass::ReceiveClosed => Err(SendError::ReceiveClosed),
        SendClass::Handoff | SendClass::Buffered => Ok(()),
        SendClass::Full => if t_delivered(my_sender(fx)) { Ok(()) } else { Err(SendError::Closed) },
    }
}
pub open spec fn recv_first_section<T>(fx: Fx<T>) -> bool {
    let a = pre0(fx);
    let b = post0(fx);
    if ref_recv_class(a) is Empty {
        &&& b.r.len() == a.r.len() + 1
        &&& aeq(b, ref_recv_register(a, b.r.last()))
        &&& no_effects(fx)
    } else {
        recv_step(fx)
    }
}
pub open spec fn recv_result<T>(fx: Fx<T>) -> Result<T, ReceiveError> {
    match ref_recv_class(pre0(fx)) {
        RecvClass::Closed => Err(ReceiveError::Closed),
        RecvClass::SendClosed => Err(ReceiveError::SendClosed),
        RecvClass::Empty => if t_delivered(my_receiver(fx)) { Ok(received(my_receiver(fx))) } else { Err(ReceiveError::Closed) },
        _ => Ok(ref_recv_value(pre0(fx))->0),
    }
}
/// the lent sender slot at an exit of its scope (O-slot-disposed): delivered => still initialised and
/// not dropped by the sender; not delivered and T needs dropping => dropped exactly once
pub open spec fn slot_disposed<T>(sig: &Signal<T>, data: MaybeUninit<T>) -> bool {
    &&& sig.delivered() ==> data.mem_contents() is Init
    &&& (!sig.delivered() && spec_needs_drop::<T>()) ==> data.mem_contents() is Uninit
}
/// nothing observable changed (field-wise; VecDeque values are compared through their views)
pub open spec fn same_state<T>(x: ChannelInternal<T>, y: ChannelInternal<T>) -> bool {
    x.queue@ == y.queue@ && x.wait_list@ == y.wait_list@ && x.recv_blocking == y.recv_blocking && same_meta(x, y)
}
/// the section removed exactly the entry `t` (first occurrence found) and kept everything else in order
pub open spec fn cancelled_section<T>(c: CS<T>, t: SignalTerminator<T>) -> bool {
    exists|i: int| 0 <= i < c.pre.wait_list@.len() && c.pre.wait_list@[i] == t
        && c.post.wait_list@ =~= c.pre.wait_list@.remove(i)
        && c.post.queue@ == c.pre.queue@ && same_meta(c.pre, c.post) && c.post.recv_blocking == c.pre.recv_blocking
}
/// second critical section of a timed operation / of a future's drop: either it removed exactly the
/// caller's own entry or it changed nothing
pub open spec fn cancel_section<T>(c: CS<T>, t: SignalTerminator<T>) -> bool {
    same_state(c.pre, c.post) || cancelled_section(c, t)
}
/// the critical section left the abstract state as it was
pub open spec fn unchanged<T>(c: CS<T>) -> bool { aeq(alpha(c.post), alpha(c.pre)) }
pub open spec fn recv_registered<T>(fx: Fx<T>) -> bool { post0(fx).r.len() == pre0(fx).r.len() + 1 }
pub open spec fn send_registered<T>(fx: Fx<T>) -> bool { post0(fx).s.len() == pre0(fx).s.len() + 1 }

/// Option-taking timed send, at an exit of the lent slot's scope: delivered => the slot was not read
/// back and the caller's option is empty; not delivered => the value is back in the caller's option
pub open spec fn slot_handed_back<T>(sig: &Signal<T>, slot: MaybeUninit<T>, data: Option<T>) -> bool {
    &&& slot.mem_contents() is Init
    &&& sig.delivered() ==> data is None
    &&& !sig.delivered() ==> data == Some(slot.mem_contents().value())
}

pub open spec fn payloads<T>(s: Seq<SignalTerminator<T>>) -> Seq<T> { s.map_values(|t: SignalTerminator<T>| payload(t)) }

// ------------------------------------------------------------------ futures (Appendix A "futures")
pub open spec fn nd<T>() -> int { if spec_needs_drop::<T>() { 1 } else { 0 } }

/// type invariant of SendFuture between polls
pub open spec fn send_fut_inv<T>(f: SendFuture<'_, T>) -> bool {
    // O-rearm: a future in state Zero holds a signal that was never published
    &&& (f.state is Zero ==> f.sig.fresh())
    &&& !f.sig.is_sync()
    // the value is still in the future until the operation is Done
    &&& (!(f.state is Done) && big::<T>() ==> f.data.mem_contents() is Init)
    &&& (!(f.state is Done) && !big::<T>() ==> f.sig.owns_payload())
}
pub open spec fn recv_fut_inv<T>(f: ReceiveFuture<'_, T>) -> bool {
    &&& (f.state is Zero ==> f.sig.fresh())
    &&& !f.sig.is_sync()
    &&& (!big::<T>() ==> !f.sig.owns_payload())
    // once the peer has filled the lent slot it is initialised and holds what the peer wrote
    // (evidence for reading / dropping it)
    &&& (f.state is Waiting && big::<T>() ==> (ptr_filled(f.sig.slot()) ==> f.data.mem_contents() is Init
            && f.data.mem_contents().value() == ptr_fill_val(f.sig.slot())))
}
/// the states in which `ReceiveFuture::poll` starts a new receive: Zero, or Done for the stream (re-arm)
pub open spec fn recv_starts<T>(f: ReceiveFuture<'_, T>) -> bool {
    f.state is Zero || (f.state is Done && f.is_stream)
}

/// complete post-condition of one poll of a send future (one reference step: Appendix A)
pub open spec fn send_poll_post<T>(o: SendFuture<'_, T>, n: SendFuture<'_, T>, fx: Fx<T>, r: Poll<Result<(), SendError>>) -> bool {
    if o.state is Zero {
        &&& fx.cs.len() == 1
        &&& send_first_section(fx, send_fut_value(o))
        &&& match ref_send_class(pre0(fx)) {
                SendClass::Closed => r == Poll::Ready(Err::<(), SendError>(SendError::Closed)) && n.state is Done
                    && fx.local_reads == 0 && fx.local_drops == nd::<T>(),
                SendClass::ReceiveClosed => r == Poll::Ready(Err::<(), SendError>(SendError::ReceiveClosed)) && n.state is Done
                    && fx.local_reads == 0 && fx.local_drops == nd::<T>(),
                SendClass::Handoff | SendClass::Buffered => r == Poll::Ready(Ok::<(), SendError>(())) && n.state is Done
                    && fx.local_reads == 1 && fx.local_drops == 0,
                SendClass::Full => r is Pending && n.state is Waiting && my_sender(fx) == o.sig.term()
                    && fx.local_reads == 0 && fx.local_drops == 0,
            }
    } else {
        // Waiting: completion is decided from the signal only; at most an observing section
        &&& fx.cs.len() <= 1
        &&& (fx.cs.len() == 1 ==> same_state(fx.cs[0].pre, fx.cs[0].post))
        // O-spurious: while the waiter is still listed (nobody has claimed it) a poll stays pending
        &&& (fx.cs.len() == 1 && senders(fx.cs[0].pre).contains(o.sig.term()) ==> r is Pending)
        &&& no_effects(fx)
        &&& fx.local_reads == 0
        &&& match r {
                Poll::Pending => n.state is Waiting && fx.local_drops == 0,
                Poll::Ready(Ok(_)) => n.state is Done && o.sig.delivered() && fx.local_drops == 0,
                Poll::Ready(Err(e)) => n.state is Done && !o.sig.delivered() && e == SendError::Closed && fx.local_drops == nd::<T>(),
            }
    }
}
pub open spec fn recv_poll_post<T>(o: ReceiveFuture<'_, T>, n: ReceiveFuture<'_, T>, fx: Fx<T>, r: Poll<Result<T, ReceiveError>>) -> bool {
    if recv_starts(o) {
        &&& fx.cs.len() == 1
        &&& recv_first_section(fx)
        &&& fx.local_reads == 0 && fx.local_drops == 0
        &&& match ref_recv_class(pre0(fx)) {
                RecvClass::Closed => r == Poll::Ready(Err::<T, ReceiveError>(ReceiveError::Closed)) && n.state is Done,
                RecvClass::SendClosed => r == Poll::Ready(Err::<T, ReceiveError>(ReceiveError::SendClosed)) && n.state is Done,
                RecvClass::Empty => r is Pending && n.state is Waiting && my_receiver(fx) == n.sig.term(),
                _ => r == Poll::Ready(Ok::<T, ReceiveError>(ref_recv_value(pre0(fx))->0)) && n.state is Done,
            }
    } else {
        &&& fx.cs.len() <= 1
        &&& (fx.cs.len() == 1 ==> same_state(fx.cs[0].pre, fx.cs[0].post))
        &&& (fx.cs.len() == 1 && receivers(fx.cs[0].pre).contains(o.sig.term()) ==> r is Pending)
        &&& no_effects(fx)
        &&& fx.local_drops == 0
        &&& match r {
                Poll::Pending => n.state is Waiting && fx.local_reads == 0,
                // O-spurious: a value is produced only on evidence of delivery, and it is the delivered one
                Poll::Ready(Ok(v)) => n.state is Done && o.sig.delivered() && v == received(o.sig.term()) && fx.local_reads == 1,
                Poll::Ready(Err(e)) => n.state is Done && !o.sig.delivered() && e == ReceiveError::Closed && fx.local_reads == 0,
            }
    }
}
pub open spec fn stream_result<T>(ir: Poll<Result<T, ReceiveError>>) -> Poll<Option<T>> {
    match ir {
        Poll::Pending => Poll::Pending,
        Poll::Ready(Ok(v)) => Poll::Ready(Some(v)),
        Poll::Ready(Err(_)) => Poll::Ready(None),
    }
}

// ================================================================== lemmas over the reference channel
// (DESIGN.md §3.5 "lemmas over the contracts"): pure proofs about the ref_* functions.  Every entry point
// is proved to perform exactly these steps on alpha(state), so what is shown here for one step holds for
// every critical section of every execution (R1).

/// the lock invariant, seen through the abstraction
pub open spec fn awf<T>(a: A<T>) -> bool {
    &&& a.q.len() <= a.cap
    &&& (a.s.len() > 0 ==> a.q.len() == a.cap)
    &&& (a.r.len() > 0 ==> a.q.len() == 0)
    &&& !(a.s.len() > 0 && a.r.len() > 0)
    &&& ((a.rc == 0 || a.sc == 0) ==> a.s.len() == 0 && a.r.len() == 0)
}
pub proof fn lemma_wf_abstract<T>(c: ChannelInternal<T>)
    requires wf(c),
    ensures awf(alpha(c)),
{}

/// L-WF: every non-registering step preserves the invariant; registration preserves it when the
/// registering side is alive (R5 for senders; checked in the code for receivers)
pub proof fn lemma_L_WF<T>(a: A<T>, d: T, t: SignalTerminator<T>)
    requires awf(a),
    ensures
        awf(ref_send_post(a, d)),
        awf(ref_recv_post(a)),
        awf(ref_close_post(a)),
        awf(ref_clone_sender(a)), awf(ref_clone_receiver(a)),
        awf(ref_drop_sender(a)), awf(ref_drop_receiver(a)),
        ref_send_class(a) is Full && a.sc != 0 ==> awf(ref_send_register(a, t)),
        ref_recv_class(a) is Empty ==> awf(ref_recv_register(a, t)),
{}

/// L-FIFO (C02): a send-type step appends at the tail of the logical order (or hands to the oldest waiting
/// receiver, which happens only when the logical order is empty); a receive-type step removes its head.
pub proof fn lemma_L_FIFO<T>(a: A<T>, d: T, t: SignalTerminator<T>)
    requires awf(a),
    ensures
        ref_send_class(a) is Buffered ==> logical(ref_send_post(a, d)) =~= logical(a).push(d),
        ref_send_class(a) is Handoff ==> logical(a).len() == 0 && logical(ref_send_post(a, d)).len() == 0
            && ref_send_handoff(a, d) =~= seq![(a.r[0], d)],
        ref_send_class(a) is Full && payload(t) == d ==> logical(ref_send_register(a, t)) =~= logical(a).push(d),
        (ref_recv_value(a) matches Some(v) ==> logical(a).len() > 0 && v == logical(a)[0]
            && logical(ref_recv_post(a)) =~= logical(a).skip(1)),
        ref_recv_value(a) is None ==> logical(ref_recv_post(a)) =~= logical(a),
        // a value is available exactly when the logical order is non-empty (and the receive side is open)
        a.rc != 0 ==> (ref_recv_value(a) is Some <==> logical(a).len() > 0),
{
    let m = |t: SignalTerminator<T>| payload(t);
    if ref_send_class(a) is Full && payload(t) == d {
        assert(a.s.push(t).map_values(m) =~= a.s.map_values(m).push(d));
        assert(logical(ref_send_register(a, t)) =~= logical(a).push(d));
    }
    if ref_send_class(a) is Buffered {
        assert(a.s.len() == 0);
    }
    match ref_recv_class(a) {
        RecvClass::BufferRefill => {
            assert(a.s.skip(1).map_values(m) =~= a.s.map_values(m).skip(1));
            assert(logical(ref_recv_post(a)) =~= logical(a).skip(1));
        }
        RecvClass::Buffer => {
            assert(logical(ref_recv_post(a)) =~= logical(a).skip(1));
        }
        RecvClass::Direct => {
            assert(a.s.skip(1).map_values(m) =~= a.s.map_values(m).skip(1));
            assert(logical(ref_recv_post(a)) =~= logical(a).skip(1));
        }
        _ => {}
    }
}

/// L-CONS (C01): one step changes the multiset of values inside the channel by exactly the value accepted
/// (send-type success into buffer / registration) or exactly the value handed out (receive-type); a hand-off
/// passes the value through without storing it; failure leaves it unchanged.
pub proof fn lemma_L_CONS<T>(a: A<T>, d: T, t: SignalTerminator<T>)
    requires awf(a),
    ensures
        ref_send_class(a) is Buffered ==> logical(ref_send_post(a, d)).to_multiset() =~= logical(a).to_multiset().insert(d),
        (ref_send_class(a) is Closed || ref_send_class(a) is ReceiveClosed || ref_send_class(a) is Full || ref_send_class(a) is Handoff)
            ==> logical(ref_send_post(a, d)) =~= logical(a),
        (ref_recv_value(a) matches Some(v) ==> logical(a).to_multiset() =~= logical(ref_recv_post(a)).to_multiset().insert(v)),
        !closed(a) ==> logical(ref_close_post(a)).len() == 0,
{
    lemma_L_FIFO(a, d, t);
    broadcast use vstd::seq_lib::group_to_multiset_ensures;
    if ref_send_class(a) is Buffered {
        assert(logical(ref_send_post(a, d)) =~= logical(a).push(d));
    }
    if let Some(v) = ref_recv_value(a) {
        let l = logical(a);
        assert(l =~= seq![v] + l.skip(1));
        vstd::seq_lib::lemma_multiset_commutative(seq![v], l.skip(1));
        assert(seq![v].to_multiset() =~= Multiset::empty().insert(v)) by {
            assert(seq![v] =~= Seq::<T>::empty().push(v));
        }
        assert(logical(ref_recv_post(a)) =~= l.skip(1));
    }
}

/// L-CAP (C08): the buffer never exceeds the capacity, a send is refused exactly when the buffer is full and
/// no receiver waits, an unbounded channel never refuses, a rendezvous channel never buffers.
pub proof fn lemma_L_CAP<T>(a: A<T>, d: T)
    requires awf(a),
    ensures
        ref_send_post(a, d).q.len() <= a.cap,
        a.rc != 0 ==> (ref_send_class(a) is Full <==> (a.q.len() == a.cap && a.r.len() == 0)),
        a.cap == usize::MAX as int && a.q.len() < usize::MAX as int ==> !(ref_send_class(a) is Full),
        a.cap == 0 ==> !(ref_send_class(a) is Buffered),
        // per step, #successful non-blocking sends - #values taken changes exactly like the buffer length
        ref_send_class(a) is Buffered ==> ref_send_post(a, d).q.len() == a.q.len() + 1,
        ref_recv_class(a) is Buffer ==> ref_recv_post(a).q.len() == a.q.len() - 1,
        ref_recv_class(a) is BufferRefill ==> ref_recv_post(a).q.len() == a.q.len(),
{}

/// L-CLOSED (C10): closed is absorbing -- no step leaves the closed state or changes anything in it.
pub proof fn lemma_L_CLOSED<T>(a: A<T>, d: T)
    requires closed(a), awf(a),
    ensures
        aeq(ref_send_post(a, d), a), ref_send_class(a) is Closed,
        aeq(ref_recv_post(a), a), ref_recv_class(a) is Closed,
        aeq(ref_close_post(a), a),
        aeq(ref_clone_sender(a), a), aeq(ref_clone_receiver(a), a),
        aeq(ref_drop_sender(a), a), aeq(ref_drop_receiver(a), a),
        closed(ref_close_post(a)),
{}

/// L-DISC (C11): the send side is reported dead only when the count is 0; receivers get SendClosed only
/// after the logical content is exhausted; dropping a handle terminates waiters exactly on the 1 -> 0
/// transition while the other side lives.
pub proof fn lemma_L_DISC<T>(a: A<T>)
    requires awf(a),
    ensures
        ref_recv_class(a) is SendClosed ==> a.sc == 0 && logical(a).len() == 0,
        ref_send_class(a) is ReceiveClosed ==> a.rc == 0 && a.sc != 0,
        a.sc > 1 ==> ref_drop_sender_terminated(a).len() == 0 && ref_drop_sender(a).sc == a.sc - 1,
        a.rc > 1 ==> ref_drop_receiver_terminated(a).len() == 0 && ref_drop_receiver(a).rc == a.rc - 1,
        a.sc == 1 && a.rc != 0 ==> ref_drop_sender_terminated(a) =~= a.s + a.r && ref_drop_sender(a).s.len() == 0 && ref_drop_sender(a).r.len() == 0,
        a.rc == 1 && a.sc != 0 ==> ref_drop_receiver_terminated(a) =~= a.s + a.r && ref_drop_receiver(a).s.len() == 0 && ref_drop_receiver(a).r.len() == 0,
{}

/// L-COUNT (C12): a ledger of live handles stays equal to the counts under every handle step of an open
/// channel, and a closed channel stays at 0/0.
pub ghost struct Ledger { pub senders: int, pub receivers: int }
pub open spec fn ledger_ok<T>(a: A<T>, l: Ledger) -> bool {
    if closed(a) { true } else { a.sc == l.senders && a.rc == l.receivers }
}
pub proof fn lemma_L_COUNT<T>(a: A<T>, l: Ledger)
    requires ledger_ok(a, l), l.senders >= 0, l.receivers >= 0, !closed(a),
    ensures
        // clone: one more live handle
        ledger_ok(ref_clone_sender(a), Ledger { senders: l.senders + 1, ..l }) || a.sc == 0,
        ledger_ok(ref_clone_receiver(a), Ledger { receivers: l.receivers + 1, ..l }) || a.rc == 0,
        // drop of a live handle: one fewer
        l.senders >= 1 ==> ledger_ok(ref_drop_sender(a), Ledger { senders: l.senders - 1, ..l }),
        l.receivers >= 1 ==> ledger_ok(ref_drop_receiver(a), Ledger { receivers: l.receivers - 1, ..l }),
        // close: both read zero afterwards, for ever (L-CLOSED)
        ref_close_post(a).sc == 0 && ref_close_post(a).rc == 0,
{}

// ================================================================== whole-history lemmas (C01, C02, C08, C10)
// Every entry point is proved to perform, per critical section, one of the steps below on alpha(state)
// (O-step, O-close.state, O-drop.state, O-count.clone, O-cancel-order ...), and critical sections exclude each
// other (R1).  Hence every execution, under every schedule, is a sequence of these steps; what is shown here by
// induction over *all* finite step sequences therefore holds at every instant of every execution.

pub enum HOp<T> {
    /// a send-type section that does not register (try_send, or the first section of send / poll when not Full)
    Send(T),
    /// a send-type section on a Full channel that registers the waiter `t` (payload(t) is the value)
    SendRegister(SignalTerminator<T>),
    /// a receive-type section that does not register
    Recv,
    RecvRegister(SignalTerminator<T>),
    /// a blocked sender / receiver removes its own entry (timeout, dropped future)
    CancelSender(int),
    CancelReceiver(int),
    Close, CloneSender, CloneReceiver, DropSender, DropReceiver,
}

/// channel state plus the ghost history needed to state exactly-once and FIFO
pub ghost struct H<T> {
    pub a: A<T>,
    /// values accepted and neither withdrawn nor destroyed, in acceptance order
    pub live: Seq<T>,
    /// values handed to receive operations, in the order they were handed out
    pub delivered: Seq<T>,
    pub ever_closed: bool,
}

pub open spec fn hstep<T>(h: H<T>, op: HOp<T>) -> H<T> {
    let a = h.a;
    match op {
        HOp::Send(d) => match ref_send_class(a) {
            SendClass::Buffered => H { a: ref_send_post(a, d), live: h.live.push(d), ..h },
            SendClass::Handoff => H { a: ref_send_post(a, d), live: h.live.push(d), delivered: h.delivered.push(d), ..h },
            _ => h,
        },
        HOp::SendRegister(t) => if ref_send_class(a) is Full && a.sc != 0 {
            H { a: ref_send_register(a, t), live: h.live.push(payload(t)), ..h }
        } else { h },
        HOp::Recv => match ref_recv_value(a) {
            Some(v) => H { a: ref_recv_post(a), delivered: h.delivered.push(v), ..h },
            None => h,
        },
        HOp::RecvRegister(t) => if ref_recv_class(a) is Empty { H { a: ref_recv_register(a, t), ..h } } else { h },
        HOp::CancelSender(i) => if 0 <= i < a.s.len() {
            H { a: A { s: a.s.remove(i), ..a }, live: h.live.remove(h.delivered.len() + a.q.len() + i), ..h }
        } else { h },
        HOp::CancelReceiver(i) => if 0 <= i < a.r.len() { H { a: A { r: a.r.remove(i), ..a }, ..h } } else { h },
        HOp::Close => if closed(a) { h } else {
            H { a: ref_close_post(a), live: h.live.take(h.delivered.len() as int), ever_closed: true, ..h }
        },
        HOp::CloneSender => H { a: ref_clone_sender(a), ..h },
        HOp::CloneReceiver => H { a: ref_clone_receiver(a), ..h },
        // dropping the last handle of a side releases the other side's waiters with an error: blocked senders
        // take their values back (withdrawn from `live`)
        HOp::DropSender => H { a: ref_drop_sender(a), live: if a.sc == 1 && a.rc != 0 { h.live.take((h.delivered.len() + a.q.len()) as int) } else { h.live }, ..h },
        HOp::DropReceiver => H { a: ref_drop_receiver(a), live: if a.rc == 1 && a.sc != 0 { h.live.take((h.delivered.len() + a.q.len()) as int) } else { h.live }, ..h },
    }
}

pub open spec fn hinit<T>(cap: int) -> H<T> {
    H { a: A { q: Seq::empty(), s: Seq::empty(), r: Seq::empty(), cap: cap, rc: 1, sc: 1 }, live: Seq::empty(), delivered: Seq::empty(), ever_closed: false }
}

pub open spec fn hrun<T>(h: H<T>, ops: Seq<HOp<T>>) -> H<T>
    decreases ops.len()
{
    if ops.len() == 0 { h } else { hstep(hrun(h, ops.drop_last()), ops.last()) }
}

/// the history invariant: lock invariant + "everything accepted and still live is exactly what has been
/// delivered, in order, followed by what the channel still holds, in order" (exactly-once + FIFO)
pub open spec fn hinv<T>(h: H<T>) -> bool {
    &&& awf(h.a)
    &&& h.live =~= h.delivered + logical(h.a)
    &&& (h.ever_closed ==> closed(h.a))
}

/// what one step must preserve / guarantee (shared by the per-operation lemmas below)
pub open spec fn hstep_ok<T>(h: H<T>, n: H<T>) -> bool {
    &&& hinv(n)
    // delivered only ever grows, by the head of the logical order or by a value just accepted (hand-off)
    &&& h.delivered.is_prefix_of(n.delivered)
    // C10: after close nothing is delivered and nothing changes
    &&& (closed(h.a) ==> n.delivered =~= h.delivered && aeq(n.a, h.a))
}

pub proof fn lemma_hstep_send<T>(h: H<T>, d: T)
    requires hinv(h),
    ensures hstep_ok(h, hstep(h, HOp::Send(d))),
{
    let a = h.a;
    let n = hstep(h, HOp::Send(d));
    lemma_L_FIFO(a, d, arbitrary());
    if ref_send_class(a) is Buffered {
        assert(logical(n.a) =~= logical(a).push(d));
        assert(n.live =~= n.delivered + logical(n.a));
    } else if ref_send_class(a) is Handoff {
        assert(logical(a).len() == 0);
        assert(logical(n.a).len() == 0);
        assert(n.live =~= n.delivered + logical(n.a));
    }
}
pub proof fn lemma_hstep_send_register<T>(h: H<T>, t: SignalTerminator<T>)
    requires hinv(h),
    ensures hstep_ok(h, hstep(h, HOp::SendRegister(t))),
{
    let a = h.a;
    let n = hstep(h, HOp::SendRegister(t));
    if ref_send_class(a) is Full && a.sc != 0 {
        lemma_L_FIFO(a, payload(t), t);
        assert(logical(n.a) =~= logical(a).push(payload(t)));
        assert(n.live =~= n.delivered + logical(n.a));
    }
}
pub proof fn lemma_hstep_recv<T>(h: H<T>)
    requires hinv(h),
    ensures hstep_ok(h, hstep(h, HOp::Recv)),
{
    let a = h.a;
    let n = hstep(h, HOp::<T>::Recv);
    lemma_L_FIFO(a, arbitrary(), arbitrary());
    if let Some(v) = ref_recv_value(a) {
        assert(logical(n.a) =~= logical(a).skip(1));
        assert(v == logical(a)[0]);
        assert(n.delivered + logical(n.a) =~= h.delivered + logical(a));
    }
}
pub proof fn lemma_hstep_recv_register<T>(h: H<T>, t: SignalTerminator<T>)
    requires hinv(h),
    ensures hstep_ok(h, hstep(h, HOp::RecvRegister(t))),
{
    assert(logical(hstep(h, HOp::RecvRegister(t)).a) =~= logical(h.a));
}
#[verifier::rlimit(40)]
pub proof fn lemma_hstep_cancel_sender<T>(h: H<T>, i: int)
    requires hinv(h),
    ensures hstep_ok(h, hstep(h, HOp::CancelSender(i))),
{
    let a = h.a;
    let m = |t: SignalTerminator<T>| payload(t);
    let n = hstep(h, HOp::<T>::CancelSender(i));
    if 0 <= i < a.s.len() {
        let ps = a.s.map_values(m);
        assert(a.s.remove(i).map_values(m) =~= ps.remove(i));
        assert(logical(a) =~= a.q + ps);
        assert(logical(n.a) =~= a.q + ps.remove(i));
        assert((a.q + ps).remove(a.q.len() + i) =~= a.q + ps.remove(i));
        assert(h.live =~= h.delivered + (a.q + ps));
        assert((h.delivered + (a.q + ps)).remove(h.delivered.len() + a.q.len() + i) =~= h.delivered + (a.q + ps.remove(i)));
        assert(n.live =~= n.delivered + logical(n.a));
    }
}
pub proof fn lemma_hstep_cancel_receiver<T>(h: H<T>, i: int)
    requires hinv(h),
    ensures hstep_ok(h, hstep(h, HOp::CancelReceiver(i))),
{
    assert(logical(hstep(h, HOp::<T>::CancelReceiver(i)).a) =~= logical(h.a));
}
pub proof fn lemma_hstep_close<T>(h: H<T>)
    requires hinv(h),
    ensures hstep_ok(h, hstep(h, HOp::Close)),
{
    let n = hstep(h, HOp::<T>::Close);
    if !closed(h.a) {
        assert(logical(n.a).len() == 0);
        assert(n.live =~= n.delivered + logical(n.a));
    }
}
pub proof fn lemma_hstep_clone<T>(h: H<T>)
    requires hinv(h),
    ensures hstep_ok(h, hstep(h, HOp::CloneSender)), hstep_ok(h, hstep(h, HOp::CloneReceiver)),
{
    assert(logical(hstep(h, HOp::<T>::CloneSender).a) =~= logical(h.a));
    assert(logical(hstep(h, HOp::<T>::CloneReceiver).a) =~= logical(h.a));
}
pub proof fn lemma_hstep_drop_sender<T>(h: H<T>)
    requires hinv(h),
    ensures hstep_ok(h, hstep(h, HOp::DropSender)),
{
    let a = h.a;
    let n = hstep(h, HOp::<T>::DropSender);
    if a.sc == 1 && a.rc != 0 {
        assert(logical(n.a) =~= a.q);
        assert(n.live =~= n.delivered + logical(n.a));
    } else {
        assert(logical(n.a) =~= logical(a));
    }
}
pub proof fn lemma_hstep_drop_receiver<T>(h: H<T>)
    requires hinv(h),
    ensures hstep_ok(h, hstep(h, HOp::DropReceiver)),
{
    let a = h.a;
    let n = hstep(h, HOp::<T>::DropReceiver);
    if a.rc == 1 && a.sc != 0 {
        assert(logical(n.a) =~= a.q);
        assert(n.live =~= n.delivered + logical(n.a));
    } else {
        assert(logical(n.a) =~= logical(a));
    }
}

pub proof fn lemma_hstep_preserves<T>(h: H<T>, op: HOp<T>)
    requires hinv(h),
    ensures hstep_ok(h, hstep(h, op)),
{
    match op {
        HOp::Send(d) => lemma_hstep_send(h, d),
        HOp::SendRegister(t) => lemma_hstep_send_register(h, t),
        HOp::Recv => lemma_hstep_recv(h),
        HOp::RecvRegister(t) => lemma_hstep_recv_register(h, t),
        HOp::CancelSender(i) => lemma_hstep_cancel_sender(h, i),
        HOp::CancelReceiver(i) => lemma_hstep_cancel_receiver(h, i),
        HOp::Close => lemma_hstep_close(h),
        HOp::CloneSender => lemma_hstep_clone(h),
        HOp::CloneReceiver => lemma_hstep_clone(h),
        HOp::DropSender => lemma_hstep_drop_sender(h),
        HOp::DropReceiver => lemma_hstep_drop_receiver(h),
    }
}

/// H-INV: for every finite sequence of steps from a fresh channel of any capacity the invariant holds --
/// in particular the buffer never exceeds the capacity (C08), nothing is delivered twice or out of order and
/// nothing live is lost (C01, C02), and a closed channel stays closed (C10).
pub proof fn lemma_H_INV<T>(cap: int, ops: Seq<HOp<T>>)
    requires cap >= 0,
    ensures hinv(hrun(hinit::<T>(cap), ops)), hrun(hinit::<T>(cap), ops).a.q.len() <= cap,
    decreases ops.len()
{
    if ops.len() == 0 {
        assert(logical(hinit::<T>(cap).a) =~= Seq::<T>::empty());
    } else {
        lemma_H_INV::<T>(cap, ops.drop_last());
        lemma_hstep_preserves(hrun(hinit::<T>(cap), ops.drop_last()), ops.last());
        assert(hrun(hinit::<T>(cap), ops).a.cap == cap) by { lemma_cap_constant::<T>(cap, ops); }
    }
}
pub proof fn lemma_cap_constant<T>(cap: int, ops: Seq<HOp<T>>)
    ensures hrun(hinit::<T>(cap), ops).a.cap == cap,
    decreases ops.len()
{
    if ops.len() > 0 { lemma_cap_constant::<T>(cap, ops.drop_last()); }
}
