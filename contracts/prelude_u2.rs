// TRUSTED PRELUDE of unit U2: mutex.rs, backoff.rs and the pointer-free part of signal.rs.
// Here `Signal` is the real struct (copied from /repo/src/signal.rs on every run); the atomics, fences,
// the clock and the thread functions are stand-ins carrying *sequential, one-directional* contracts:
// a stand-in tells what a call lets its caller conclude, never what it excludes, so no two of them can
// contradict each other.  Everything in this file is assumed (listed in the evidence under trusted_base).
#![feature(allocator_api)]
#![allow(unused_imports, dead_code, unused_variables, unused_mut, unused_unsafe, non_snake_case, unused_parens, unused_braces, unreachable_code, unused_assignments, non_upper_case_globals)]
extern crate alloc;
use vstd::prelude::*;
use core::task::{Poll, Context, Waker};
use core::time::Duration;
use core::num::NonZeroUsize;
use std::thread::Thread;
// module aliases a maintainer may import instead of spelling full paths
use std::thread;
use core::{mem, ptr, hint};
verus! {
global size_of usize == 8;

#[verifier::external_type_specification] #[verifier::accept_recursive_types(T)]
pub struct ExPoll<T>(core::task::Poll<T>);
#[verifier::external_type_specification] #[verifier::external_body]
pub struct ExWaker(core::task::Waker);

// ------------------------------------------------------------------ effect tokens (shared with U1)
pub uninterp spec fn may_wait_peer() -> bool;
pub uninterp spec fn may_wait_lock() -> bool;

// ------------------------------------------------------------------ memory orderings
pub enum Ordering { Relaxed, Release, Acquire, AcqRel, SeqCst }
pub open spec fn is_acquire(o: Ordering) -> bool { o is Acquire || o is AcqRel || o is SeqCst }
pub open spec fn is_release(o: Ordering) -> bool { o is Release || o is AcqRel || o is SeqCst }
/// this thread has executed an acquire fence / acquire load (ordering token, see DESIGN.md §6 C04)
pub uninterp spec fn acq_synced() -> bool;

#[verifier::external_body]
pub fn fence(o: Ordering) ensures is_acquire(o) ==> acq_synced() { unimplemented!() }

// ------------------------------------------------------------------ AtomicBool (the lock word)
#[verifier::external_body]
pub struct AtomicBool { p: u8 }
impl AtomicBool {
    /// a compare_exchange(false -> true) of this call returned Ok: the caller holds the lock (L-MUTEX)
    pub uninterp spec fn cas_acquired(&self) -> bool;
    /// a store(false) was performed on the lock word: the lock has been released
    pub uninterp spec fn released(&self) -> bool;
    #[verifier::external_body]
    pub fn compare_exchange(&self, current: bool, new: bool, success: Ordering, failure: Ordering) -> (r: Result<bool, bool>)
        requires /*@tag:O-lock-acquire-ordering C17*/ is_acquire(success),
        ensures (r is Ok && current == false && new == true) ==> self.cas_acquired() && acq_synced(),
    { unimplemented!() }
    #[verifier::external_body]
    pub fn compare_exchange_weak(&self, current: bool, new: bool, success: Ordering, failure: Ordering) -> (r: Result<bool, bool>)
        requires /*@tag:O-lock-acquire-ordering C17*/ is_acquire(success),
        ensures (r is Ok && current == false && new == true) ==> self.cas_acquired() && acq_synced(),
    { unimplemented!() }
    #[verifier::external_body]
    pub fn store(&self, v: bool, o: Ordering)
        requires /*@tag:O-unlock-release-ordering C17*/ !v ==> is_release(o),
        ensures !v ==> self.released(),
    { unimplemented!() }
}

// ------------------------------------------------------------------ AtomicU8 (the signal state), AtomicUsize / AtomicU32 (backoff)
#[verifier::external_body]
pub struct AtomicU8 { p: u8 }
impl AtomicU8 {
    /// this thread has observed the value `v` in this atomic
    pub uninterp spec fn observed(&self, v: u8) -> bool;
    /// the value the atomic was created with
    pub uninterp spec fn init(&self) -> u8;
    #[verifier::external_body]
    pub fn new(v: u8) -> (r: Self) ensures r.init() == v { unimplemented!() }
    #[verifier::external_body]
    pub fn load(&self, o: Ordering) -> (v: u8)
        ensures self.observed(v), is_acquire(o) ==> acq_synced(),
    { unimplemented!() }
    #[verifier::external_body]
    pub fn fetch_add(&self, d: u8, o: Ordering) -> (v: u8) { unimplemented!() }
    /// compare_exchange on the signal state.  R2b (assumed, signal protocol): only the waiter itself ever stores
    /// LOCKED_STARVATION, so when its own LOCKED -> LOCKED_STARVATION exchange fails the value it sees is final.
    #[verifier::external_body]
    pub fn compare_exchange(&self, current: u8, new: u8, success: Ordering, failure: Ordering) -> (r: Result<u8, u8>)
        requires /*@tag:O-publish-release C04 C17 C03 C18*/ new < 2 ==> is_release(success),
        ensures
            r matches Err(v) ==> self.observed(v) && v != current && (is_acquire(failure) ==> acq_synced())
                && (current == 2 && new == 3 ==> v < 2),
            r matches Ok(v) ==> v == current && self.stored(new, success) && self.cas_succeeded(current, new),
    { unimplemented!() }
    /// a compare_exchange(cur -> new) of this thread succeeded
    pub uninterp spec fn cas_succeeded(&self, cur: u8, new: u8) -> bool;
    /// this thread has stored `v` with ordering `o`
    pub uninterp spec fn stored(&self, v: u8, o: Ordering) -> bool;
    /// a store to the signal state: publishing a final state (UNLOCKED / TERMINATED) must be a release
    #[verifier::external_body]
    pub fn store(&self, v: u8, o: Ordering)
        requires /*@tag:O-publish-release C04 C17 C03 C18*/ v < 2 ==> is_release(o),
        ensures self.stored(v, o),
    { unimplemented!() }
}
#[verifier::external_body]
pub struct AtomicU32 { p: u8 }
impl AtomicU32 {
    #[verifier::external_body]
    pub fn fetch_add(&self, d: u32, o: Ordering) -> (v: u32) { unimplemented!() }
}
#[verifier::external_body]
pub struct AtomicUsize { p: u8 }
impl AtomicUsize {
    #[verifier::external_body]
    pub fn load(&self, o: Ordering) -> (v: usize) { unimplemented!() }
    #[verifier::external_body]
    pub fn store(&self, v: usize, o: Ordering) { unimplemented!() }
}

// ------------------------------------------------------------------ T9 clock, T10 thread functions
#[verifier::external_body]
pub struct Instant { p: u8 }
pub uninterp spec fn reached(t: Instant) -> bool;
impl Instant {
    #[verifier::external_body]
    pub fn now() -> (t: Instant) ensures reached(t) { unimplemented!() }
}
impl PartialEq for Instant {
    #[verifier::external_body]
    fn eq(&self, other: &Self) -> bool { unimplemented!() }
}
impl PartialOrd for Instant {
    #[verifier::external_body]
    fn partial_cmp(&self, other: &Self) -> Option<core::cmp::Ordering> { unimplemented!() }
    // `reached` is downward closed: an instant not later than a reached instant has been reached
    #[verifier::external_body]
    fn gt(&self, other: &Self) -> (b: bool)
        ensures b ==> (reached(*self) ==> reached(*other)), !b ==> (reached(*other) ==> reached(*self)) { unimplemented!() }
    #[verifier::external_body]
    fn lt(&self, other: &Self) -> (b: bool)
        ensures b ==> (reached(*other) ==> reached(*self)), !b ==> (reached(*self) ==> reached(*other)) { unimplemented!() }
    #[verifier::external_body]
    fn ge(&self, other: &Self) -> (b: bool)
        ensures b ==> (reached(*self) ==> reached(*other)), !b ==> (reached(*other) ==> reached(*self)) { unimplemented!() }
    #[verifier::external_body]
    fn le(&self, other: &Self) -> (b: bool)
        ensures b ==> (reached(*other) ==> reached(*self)), !b ==> (reached(*self) ==> reached(*other)) { unimplemented!() }
}
pub assume_specification [core::time::Duration::from_nanos] (_0: u64) -> (r: core::time::Duration);
/// std::thread::sleep / yield_now / hint::spin_loop / available_parallelism: return, touch nothing
#[verifier::external_body]
pub fn sleep(dur: Duration) requires may_wait_peer() || may_wait_lock() { unimplemented!() }
#[verifier::external_body]
pub fn spin_hint() { unimplemented!() }
#[verifier::external_body]
pub fn yield_now_std() { unimplemented!() }
#[verifier::external_body]
pub fn available_parallelism_or_1() -> (p: usize) ensures p >= 1 { unimplemented!() }

// ------------------------------------------------------------------ opaque payload pointer and waker kinds
#[verifier::external_body] #[verifier::accept_recursive_types(T)]
pub struct KanalPtr<T> { p: core::marker::PhantomData<T> }
#[verifier::external_body] #[verifier::accept_recursive_types(X)]
pub struct UnsafeCell<X> { p: core::marker::PhantomData<X> }
#[verifier::external_type_specification] #[verifier::external_body]
pub struct ExThread(std::thread::Thread);
impl<X> UnsafeCell<X> {
    #[verifier::external_body]
    pub fn new(x: X) -> Self { unimplemented!() }
    /// stand-in for `UnsafeCell::get` (which returns a raw pointer): access to the cell's content
    pub uninterp spec fn view(&self) -> X;
    #[verifier::external_body]
    pub fn get(&self) -> (r: &mut X) ensures *r == self.view() { unimplemented!() }
}
/// R2b (assumed, signal protocol), peer side: when the peer's LOCKED -> final exchange fails the waiter is in
/// LOCKED_STARVATION, i.e. it has stored its thread handle into the waker cell before (release/acquire pair of
/// the two compare_exchanges).  Invoked by a kweave hint exactly at the `.unwrap()` of that handle in `wake`.
#[verifier::external_body]
pub proof fn axiom_starvation_publishes_handle(cell: Option<std::thread::Thread>)
    ensures cell is Some,
{}
pub assume_specification [<std::thread::Thread as core::clone::Clone>::clone] (_0: &std::thread::Thread) -> (r: std::thread::Thread) ensures r == *_0;
/// this thread has invoked the task waker `w` / unparked the thread `t`
pub uninterp spec fn woken(w: core::task::Waker) -> bool;
pub uninterp spec fn unparked(t: std::thread::Thread) -> bool;
pub assume_specification [std::thread::Thread::unpark] (_0: &std::thread::Thread) ensures unparked(*_0);
pub assume_specification<T> [core::mem::drop] (_0: T);
pub assume_specification [core::task::Waker::wake] (_0: core::task::Waker) ensures woken(_0);
pub assume_specification [core::task::Waker::wake_by_ref] (_0: &core::task::Waker) ensures woken(*_0);
/// the raw data pointer of a waker: nothing is known about it (comparing two of them does not decide `will_wake`)
pub assume_specification [core::task::Waker::data] (_0: &core::task::Waker) -> (r: *const ());
/// T10: std::thread::current / park (trusted: return, touch nothing the contracts speak about)
pub assume_specification [std::thread::current] () -> std::thread::Thread;
pub assume_specification [std::thread::park] ();
impl<T> KanalPtr<T> {
    /// the payload behind / inside this pointer has been written (send) or taken (recv) by the peer
    pub uninterp spec fn moved(&self) -> bool;
    /// this thread has written the value `d` through the pointer / copied the object behind `d` through it
    pub uninterp spec fn wrote(&self, d: T) -> bool;
    pub uninterp spec fn copied(&self, d: *const T) -> bool;
    /// the value a read through the pointer yields (K1.roundtrip: the value written / lent)
    pub uninterp spec fn content(&self) -> T;
    #[verifier::external_body]
    pub unsafe fn write(&self, d: T) ensures self.moved(), self.wrote(d) { unimplemented!() }
    #[verifier::external_body]
    pub unsafe fn read(&self) -> (r: T) ensures self.moved(), r == self.content() { unimplemented!() }
    #[verifier::external_body]
    pub unsafe fn copy(&self, d: *const T) ensures self.moved(), self.copied(d) { unimplemented!() }
}
/// X11 stand-in for the `*const Signal<T>` a SignalTerminator carries: `as_ref` is the dereference the real code performs
/// inside `Signal::send/recv/terminate` (`(*this)`); that the pointee is alive is R3 (assumed, lifetime/pinning)
#[verifier::external_body] #[verifier::accept_recursive_types(T)]
pub struct SigPtr<T> { p: core::marker::PhantomData<T> }
impl<T> Clone for SigPtr<T> {
    #[verifier::external_body]
    fn clone(&self) -> (r: Self) ensures r == *self { unimplemented!() }
}
impl<T> Copy for SigPtr<T> {}
impl<T> SigPtr<T> {
    pub uninterp spec fn target(self) -> Signal<T>;
    #[verifier::external_body]
    pub fn as_ref<'a>(self) -> (r: &'a Signal<T>) ensures *r == self.target() { unimplemented!() }
}
impl<X> From<X> for UnsafeCell<X> {
    #[verifier::external_body]
    fn from(x: X) -> Self { unimplemented!() }
}
impl<T> Default for KanalPtr<T> {
    #[verifier::external_body]
    fn default() -> Self { unimplemented!() }
}
/// backoff.rs leaves that touch thread-local / static state (T10): trusted
#[verifier::external_body]
pub fn get_parallelism() -> (p: usize) ensures p >= 1 { unimplemented!() }
#[verifier::external_body]
pub fn random_u7() -> (r: u8) ensures r <= 0x7F { unimplemented!() }

/// `waker.clone()` yields a waker that wakes the same task; `will_wake` compares wakers
pub assume_specification [<core::task::Waker as core::clone::Clone>::clone] (_0: &core::task::Waker) -> (r: core::task::Waker)
    ensures r == *_0;
pub assume_specification [core::task::Waker::will_wake] (_0: &core::task::Waker, _1: &core::task::Waker) -> (b: bool)
    ensures b == (*_0 == *_1);

/// X4: the woven unit is flat; `backoff::f` paths of signal.rs resolve through this alias module
pub mod backoff { pub use super::{sleep, spin_hint, yield_now_std, yield_now, spin_wait, get_parallelism}; }

/*@@WOVEN@@*/

} // verus!
fn main() {}
