// TRUSTED PRELUDE of unit U1 (DESIGN.md §3.4).  Everything in this file is *assumed*, never proved:
// stand-ins for the types the verifier cannot read (Signal, SignalTerminator, KanalPtr, Mutex,
// MutexGuard, Instant) with their assumed contracts T1-T10, the ghost effect log `Fx`, and
// assume_specifications for the handful of std functions vstd does not specify.
// The woven text of /repo/src/{internal,lib,future}.rs is inserted at the marker below on every run.
#![feature(allocator_api)]
#![allow(unused_imports, dead_code, unused_variables, unused_mut, unused_unsafe, non_snake_case, unused_parens, unused_braces, unreachable_code, unused_assignments)]
extern crate alloc;
use vstd::prelude::*;
use vstd::raw_ptr::MemContents;
use vstd::multiset::Multiset;
use std::collections::VecDeque;
use std::sync::Arc;
use core::ops::{Deref, DerefMut};
use core::mem::{needs_drop, size_of, MaybeUninit};
use core::marker::PhantomPinned;
use core::task::{Poll, Context, Waker};
use core::time::Duration;
// module aliases a maintainer may import instead of spelling full paths
use std::thread;
use core::{mem, ptr, hint};
verus! {
global size_of usize == 8;

// ------------------------------------------------------------------ opaque types
#[verifier::external_body] #[verifier::accept_recursive_types(T)]
pub struct KanalPtr<T> { p: core::marker::PhantomData<T> }
#[verifier::external_body] #[verifier::accept_recursive_types(T)]
pub struct Signal<T> { p: core::marker::PhantomData<T> }
#[verifier::external_body] #[verifier::accept_recursive_types(T)]
pub struct SignalTerminator<T> { p: core::marker::PhantomData<T> }
#[verifier::external_body] #[verifier::accept_recursive_types(X)]
pub struct Mutex<X> { p: core::marker::PhantomData<X> }
#[verifier::external_body] #[verifier::accept_recursive_types(X)]
pub struct MutexGuard<'a, X> { p: core::marker::PhantomData<&'a mut X> }
#[verifier::external_body]
pub struct Instant { p: u8 }
#[verifier::external_body] #[verifier::accept_recursive_types(F)]
pub struct PinBox<F> { p: core::marker::PhantomData<F> }

#[verifier::external_type_specification] #[verifier::accept_recursive_types(T)]
pub struct ExPoll<T>(core::task::Poll<T>);
#[verifier::external_type_specification] #[verifier::external_body]
pub struct ExContext<'a>(core::task::Context<'a>);
#[verifier::external_type_specification] #[verifier::external_body]
pub struct ExWaker(core::task::Waker);
#[verifier::external_type_specification]
pub struct ExPhantomPinned(core::marker::PhantomPinned);

// ------------------------------------------------------------------ ghost effect log
pub enum Role { Sender, Receiver }

/// one critical section: state at acquisition, state when the guard died
pub ghost struct CS<T> { pub pre: ChannelInternal<T>, pub post: ChannelInternal<T> }

pub tracked struct Fx<T> {
    /// critical sections of this call, in order
    pub ghost cs: Seq<CS<T>>,
    /// waiters taken off the wait list by this call (under the lock), with the role they had
    pub ghost popped: Multiset<(SignalTerminator<T>, Role)>,
    /// popped waiters that have been completed (send / recv) by this call, with the role they were completed in
    pub ghost used: Multiset<(SignalTerminator<T>, Role)>,
    /// hand-offs into a waiting receiver's slot, in order
    pub ghost sent: Seq<(SignalTerminator<T>, T)>,
    /// waiting senders whose value was taken, in order
    pub ghost taken: Seq<SignalTerminator<T>>,
    /// waiters released with the `terminated` outcome, in order
    pub ghost terminated: Seq<SignalTerminator<T>>,
    /// the channel lock is held by this call right now
    pub ghost held: bool,
    /// signals seen in the wait list during the current critical section
    pub ghost listed: Set<SignalTerminator<T>>,
    /// waiters this call registered, with the role they were registered in
    pub ghost roles: Map<SignalTerminator<T>, Role>,
    /// number of times this call dropped / moved-out the future's local value
    pub ghost local_drops: int,
    pub ghost local_reads: int,
    /// number of times this call destroyed a (small) value stored inside a signal (Signal::load_and_drop)
    pub ghost sig_drops: int,
}

impl<T> Fx<T> {
    pub open spec fn fresh(self) -> bool {
        &&& self.cs.len() == 0
        &&& self.popped == Multiset::<(SignalTerminator<T>, Role)>::empty()
        &&& self.used == Multiset::<(SignalTerminator<T>, Role)>::empty()
        &&& self.sent.len() == 0
        &&& self.taken.len() == 0
        &&& self.terminated.len() == 0
        &&& !self.held
        &&& self.listed == Set::<SignalTerminator<T>>::empty()
        &&& self.local_drops == 0
        &&& self.local_reads == 0
        &&& self.sig_drops == 0
        &&& self.roles == Map::<SignalTerminator<T>, Role>::empty()
    }
    pub open spec fn same_effects_but_local(self, o: Fx<T>) -> bool {
        &&& self.popped == o.popped
        &&& self.used == o.used
        &&& self.sent == o.sent
        &&& self.taken == o.taken
        &&& self.terminated == o.terminated
        &&& self.roles == o.roles
    }
    pub open spec fn same_effects_but_roles(self, o: Fx<T>) -> bool {
        &&& self.popped == o.popped
        &&& self.used == o.used
        &&& self.sent == o.sent
        &&& self.taken == o.taken
        &&& self.terminated == o.terminated
        &&& self.local_drops == o.local_drops
        &&& self.local_reads == o.local_reads
        &&& self.sig_drops == o.sig_drops
    }
    /// everything except the critical-section list is unchanged
    pub open spec fn same_effects(self, o: Fx<T>) -> bool {
        &&& self.popped == o.popped
        &&& self.used == o.used
        &&& self.sent == o.sent
        &&& self.taken == o.taken
        &&& self.terminated == o.terminated
        &&& self.local_drops == o.local_drops
        &&& self.local_reads == o.local_reads
        &&& self.sig_drops == o.sig_drops
        &&& self.roles == o.roles
    }
}

pub open spec fn set_post<T>(cs: Seq<CS<T>>, post: ChannelInternal<T>) -> Seq<CS<T>>
    recommends cs.len() > 0
{
    cs.update(cs.len() - 1, CS { pre: cs.last().pre, post: post })
}

// ------------------------------------------------------------------ effect tokens (C14)
/// the caller is allowed to wait for a peer (blocking operations only)
pub uninterp spec fn may_wait_peer() -> bool;
/// the caller is allowed to wait for the channel's internal lock
pub uninterp spec fn may_wait_lock() -> bool;

// ------------------------------------------------------------------ T1: lock
impl<'a, X> MutexGuard<'a, X> { pub uninterp spec fn view(&self) -> X; }
impl<'a, X> Deref for MutexGuard<'a, X> { type Target = X;
    #[verifier::external_body] fn deref(&self) -> (res: &X) ensures *res == self.view() { unimplemented!() } }
impl<'a, X> DerefMut for MutexGuard<'a, X> {
    #[verifier::external_body] fn deref_mut(&mut self) -> (res: &mut X) ensures *res == old(self).view(), *final(res) == final(self).view() { unimplemented!() } }

impl<T> Mutex<ChannelInternal<T>> {
    /// blocking acquisition: lock invariant holds on entry; a new critical section is logged
    #[verifier::external_body]
    pub fn lock(&self, Tracked(fx): Tracked<&mut Fx<T>>) -> (g: MutexGuard<'_, ChannelInternal<T>>)
        requires may_wait_lock(), !old(fx).held,
        ensures wf(g.view()), a3(g.view()),
            final(fx).cs == old(fx).cs.push(CS { pre: g.view(), post: g.view() }),
            final(fx).same_effects(*old(fx)), final(fx).held, final(fx).listed == Set::<SignalTerminator<T>>::empty(),
    { unimplemented!() }
    /// one attempt, never waits
    #[verifier::external_body]
    pub fn try_lock(&self, Tracked(fx): Tracked<&mut Fx<T>>) -> (r: Option<MutexGuard<'_, ChannelInternal<T>>>)
        requires !old(fx).held,
        ensures
            r matches Some(g) ==> wf(g.view()) && a3(g.view()) && final(fx).cs == old(fx).cs.push(CS { pre: g.view(), post: g.view() }) && final(fx).held,
            r is None ==> final(fx).cs == old(fx).cs && !final(fx).held,
            final(fx).same_effects(*old(fx)), final(fx).listed == Set::<SignalTerminator<T>>::empty(),
    { unimplemented!() }
    /// constructor: the lock invariant must hold of the initial state
    #[verifier::external_body]
    pub fn from(v: ChannelInternal<T>) -> (m: Self)
        requires wf(v),
        ensures m.init() == v,
    { unimplemented!() }
    pub uninterp spec fn init(&self) -> ChannelInternal<T>;
    /// lock_api's unsafe escape hatch.  Its documented safety condition -- "must only be called if the thread
    /// logically holds the lock" -- is the precondition: a guard made without the lock unlocks someone else's
    /// critical section when it drops (seed C17g).
    #[verifier::external_body]
    pub unsafe fn make_guard_unchecked(&self, Tracked(fx): Tracked<&mut Fx<T>>) -> (g: MutexGuard<'_, ChannelInternal<T>>)
        requires /*@tag:O-guard-needs-lock C17 C03 C18 C14*/ old(fx).held,
        ensures wf(g.view()), a3(g.view()),
            final(fx).cs == old(fx).cs.push(CS { pre: g.view(), post: g.view() }),
            final(fx).same_effects(*old(fx)), final(fx).held, final(fx).listed == Set::<SignalTerminator<T>>::empty(),
    { unimplemented!() }
    /// the raw lock behind the mutex (lock_api `Mutex::raw`)
    #[verifier::external_body]
    pub unsafe fn raw(&self) -> (r: &RawLockView<T>) { unimplemented!() }
}
/// stand-in for the raw lock reached through `Mutex::raw()`: one attempt, never waits, no guard is produced
#[verifier::external_body] #[verifier::accept_recursive_types(T)]
pub struct RawLockView<T> { p: core::marker::PhantomData<T> }
impl<T> RawLockView<T> {
    #[verifier::external_body]
    pub fn try_lock(&self, Tracked(fx): Tracked<&mut Fx<T>>) -> (r: bool)
        requires !old(fx).held,
        ensures r == final(fx).held, final(fx).cs == old(fx).cs, final(fx).same_effects(*old(fx)), final(fx).listed == Set::<SignalTerminator<T>>::empty(),
    { unimplemented!() }
}
/// so that `use lock_api::RawMutex;` in woven text resolves (the trait's methods are the stand-ins above)
pub mod lock_api { pub trait RawMutex {} }

/// A3: fewer than 2^32-1 live handles per side (assumed at every acquisition)
pub open spec fn a3<T>(c: ChannelInternal<T>) -> bool { c.send_count < u32::MAX && c.recv_count < u32::MAX }

/// R5 (handle ledger, DESIGN.md §5): a thread inside a method of a live sender-side handle sees
/// send_count >= 1 unless the channel is closed.  It is the conclusion of the count ledger (C12) and is
/// imported, not proved, at the one place it is needed: a sender registering itself as a waiter.
#[verifier::external_body]
pub proof fn axiom_r5_sender_live<T>(c: ChannelInternal<T>)
    requires c.recv_count != 0,
    ensures c.send_count != 0,
{}

/// A2: every collection length is below 2^62 (true on any real machine for sized T)
pub open spec fn max_len() -> int { 0x4000_0000_0000_0000 }
#[verifier::external_body]
pub proof fn axiom_a2_lengths<T>(c: ChannelInternal<T>, v: Vec<T>)
    ensures c.queue@.len() < max_len(), c.wait_list@.len() < max_len(), v@.len() < max_len(),
{}

/// R2 (signal protocol): a waiter that its owner removes from the wait list under the lock is never
/// completed by anyone.  Invoked (by a kweave hint) exactly where `cancel_*_signal` removes the entry.
#[verifier::external_body]
pub proof fn axiom_owner_cancels<T>(list: Seq<SignalTerminator<T>>, i: int, sig: &Signal<T>)
    requires 0 <= i < list.len(), list[i] == sig.term(),
    ensures !sig.delivered(),
{}

pub assume_specification<T> [core::mem::drop] (_0: T);
/// `mem::take` on an `Option` is `Option::take` (its `Default` is `None`)
pub assume_specification<T: Default> [core::mem::take::<T>] (_0: &mut T) -> (r: T)
    ensures r == *old(_0), call_ensures(T::default, (), *final(_0));

// ------------------------------------------------------------------ T2-T8: signals
pub open spec fn big<T>() -> bool { size_of::<T>() > size_of::<*mut T>() }

/// prophecy: the waiter behind this terminator is completed with success (state UNLOCKED)
pub uninterp spec fn t_delivered<T>(t: SignalTerminator<T>) -> bool;
/// value a blocked *sender* lends (what `recv` on its terminator returns)
pub uninterp spec fn payload<T>(t: SignalTerminator<T>) -> T;
/// value a blocked *receiver* ends up with (what a peer's `send` on its terminator wrote)
pub uninterp spec fn received<T>(t: SignalTerminator<T>) -> T;
/// value behind a lent pointer at the time it was lent
pub uninterp spec fn ptr_val<T>(p: *mut T) -> T;
/// prophecy: the slot behind `p` gets written by a peer
pub uninterp spec fn ptr_filled<T>(p: *mut T) -> bool;
/// what the peer writes into the slot behind `p`
pub uninterp spec fn ptr_fill_val<T>(p: *mut T) -> T;
/// the slot `p` was obtained from a manually managed (MaybeUninit) location
pub uninterp spec fn ptr_manual<T>(p: *mut T) -> bool;

/// X9 stand-in for the coercion `&mut local as *mut T`: the address of a plain local that Rust will
/// drop again when it goes out of scope -- not a manually managed slot
#[verifier::external_body]
pub fn lend_plain_local<T>(x: &mut T) -> (r: *mut T)
    ensures !ptr_manual(r), ptr_val(r) == *old(x), *final(x) == *old(x)
{ unimplemented!() }

impl<T> KanalPtr<T> {
    pub uninterp spec fn slot(&self) -> *mut T;
    pub uninterp spec fn lent(&self) -> T;
    pub uninterp spec fn has_value(&self) -> bool;
    #[verifier::external_body]
    pub fn new_from(addr: *mut T) -> (r: Self)
        requires /*@tag:O-slot-manual C05 C13 C03 C18*/ ptr_manual(addr),
        // a slot lent for reading is never written by the peer (R2)
        ensures r.slot() == addr, r.lent() == ptr_val(addr), r.has_value(), !ptr_filled(addr)
    { unimplemented!() }
    #[verifier::external_body]
    pub fn new_write_address_ptr(addr: *mut T) -> (r: Self) ensures r.slot() == addr, !r.has_value() { unimplemented!() }
    #[verifier::external_body]
    pub fn new_unchecked(addr: *mut T) -> (r: Self)
        requires big::<T>(),
        ensures r.slot() == addr, r.lent() == ptr_val(addr), r.has_value() { unimplemented!() }
    #[verifier::external_body]
    pub fn new_owned(d: T) -> (r: Self)
        requires !big::<T>(),
        ensures r.lent() == d, r.has_value() { unimplemented!() }
}

impl<T> Signal<T> {
    /// identity of the signal as the wait list sees it
    pub uninterp spec fn term(&self) -> SignalTerminator<T>;
    /// prophecy: this signal ends in state UNLOCKED (a peer completed it)
    pub open spec fn delivered(&self) -> bool { t_delivered(self.term()) }
    /// a wait on this signal has observed the final state TERMINATED
    pub uninterp spec fn seen_terminated(&self) -> bool;
    pub uninterp spec fn slot(&self) -> *mut T;
    /// constructed (state LOCKED) and never published since
    pub uninterp spec fn fresh(&self) -> bool;
    pub uninterp spec fn wakes(&self, w: Waker) -> bool;
    pub uninterp spec fn is_sync(&self) -> bool;
    /// a sender's signal: it carries (small T) or points to (large T) the value being sent
    pub uninterp spec fn owns_payload(&self) -> bool;

    #[verifier::external_body]
    pub fn new_sync(ptr: KanalPtr<T>) -> (r: Self)
        ensures r.slot() == ptr.slot(), r.fresh(), r.is_sync(), ptr.has_value() ==> payload(r.term()) == ptr.lent(),
            r.owns_payload() == ptr.has_value()
    { unimplemented!() }
    #[verifier::external_body]
    pub fn get_terminator(&self) -> (r: SignalTerminator<T>)
        requires self.fresh(),
        ensures r == self.term() { unimplemented!() }
    /// T5
    #[verifier::external_body]
    pub fn wait(&self, Tracked(fx): Tracked<&mut Fx<T>>) -> (b: bool)
        requires may_wait_peer(), self.is_sync(),
            /*@tag:O-no-wait-under-lock C03 C14 C13 C18*/ !old(fx).held,
        ensures *final(fx) == *old(fx), b == self.delivered(),
            b && big::<T>() ==> ptr_filled(self.slot()) && ptr_fill_val(self.slot()) == received(self.term()),
    { unimplemented!() }
    #[verifier::external_body]
    pub fn wait_timeout(&self, until: Instant, Tracked(fx): Tracked<&mut Fx<T>>) -> (b: bool)
        requires may_wait_peer(),
            /*@tag:O-no-wait-under-lock C03 C14 C13 C18*/ !old(fx).held,
        ensures *final(fx) == *old(fx), b ==> self.delivered(),
            b && big::<T>() ==> ptr_filled(self.slot()) && ptr_fill_val(self.slot()) == received(self.term()),
            !b ==> reached(until) || self.seen_terminated(),
    { unimplemented!() }
    #[verifier::external_body]
    pub fn is_terminated(&self, Tracked(fx): Tracked<&mut Fx<T>>) -> (b: bool)
        ensures b ==> !self.delivered(), self.seen_terminated() ==> b, *final(fx) == *old(fx) { unimplemented!() }
    // ---- async flavour
    #[verifier::external_body]
    pub fn new_async() -> (r: Self) ensures r.fresh(), !r.is_sync(), !r.owns_payload() { unimplemented!() }
    #[verifier::external_body]
    pub fn new_async_ptr(ptr: KanalPtr<T>) -> (r: Self)
        ensures r.fresh(), !r.is_sync(), ptr.has_value() ==> payload(r.term()) == ptr.lent(), r.owns_payload() == ptr.has_value() { unimplemented!() }
    /// completion is decided from the signal state only
    #[verifier::external_body]
    pub fn poll(&self) -> (r: Poll<bool>)
        ensures r matches Poll::Ready(b) ==> (b == self.delivered()
            && (b && big::<T>() ==> ptr_filled(self.slot()) && ptr_fill_val(self.slot()) == received(self.term())))
    { unimplemented!() }
    #[verifier::external_body]
    pub fn async_blocking_wait(&self, Tracked(fx): Tracked<&mut Fx<T>>) -> (b: bool)
        requires may_wait_peer(),
            /*@tag:O-no-wait-under-lock C03 C14 C15 C16 C18*/ !old(fx).held,
        ensures *final(fx) == *old(fx), b == self.delivered(),
            b && big::<T>() ==> ptr_filled(self.slot()) && ptr_fill_val(self.slot()) == received(self.term()),
    { unimplemented!() }
    /// re-pointing the slot keeps identity, freshness and registered waker
    #[verifier::external_body]
    pub fn set_ptr(&mut self, ptr: KanalPtr<T>)
        requires /*@tag:O-setptr-unpublished C16 C15 C03 C18 C01 C04 C05*/ old(self).fresh(),
        ensures final(self).term() == old(self).term(), final(self).fresh(), final(self).is_sync() == old(self).is_sync(),
            final(self).slot() == ptr.slot(), ptr.has_value() ==> payload(final(self).term()) == ptr.lent(),
            final(self).owns_payload() == ptr.has_value(),
            forall|w: Waker| final(self).wakes(w) == old(self).wakes(w),
    { unimplemented!() }
    /// O-waker-under-lock: the waker of a signal that may already be published is replaced only while
    /// the channel lock is held and the signal has been seen in the wait list under that same lock
    #[verifier::external_body]
    pub fn register_waker(&mut self, waker: &Waker, Tracked(fx): Tracked<&mut Fx<T>>)
        requires /*@tag:O-waker-under-lock C16 C15 C03 C18*/ old(self).fresh() || (old(fx).held && old(fx).cs.len() > 0 && old(fx).cs.last().pre.wait_list@.contains(old(self).term())),
        ensures final(self).wakes(*waker), final(self).term() == old(self).term(), final(self).fresh() == old(self).fresh(),
            final(self).slot() == old(self).slot(), final(self).is_sync() == old(self).is_sync(), *final(fx) == *old(fx),
            final(self).owns_payload() == old(self).owns_payload(),
    { unimplemented!() }
    #[verifier::external_body]
    pub fn will_wake(&self, waker: &Waker) -> (b: bool) ensures b == self.wakes(*waker) { unimplemented!() }
    /// T8 (sender side, small T): drops the value still stored in the signal
    #[verifier::external_body]
    pub unsafe fn load_and_drop(&self, Tracked(fx): Tracked<&mut Fx<T>>)
        requires /*@tag:O-size-dispatch C04 C05 C03 C18*/ !big::<T>(),
        ensures final(fx).sig_drops == old(fx).sig_drops + 1, final(fx).cs == old(fx).cs, final(fx).same_effects_but_local(*old(fx)),
            final(fx).local_drops == old(fx).local_drops, final(fx).local_reads == old(fx).local_reads, final(fx).held == old(fx).held, final(fx).listed == old(fx).listed,
    { unimplemented!() }
    /// T8 (small T): the value is in the signal itself -- the delivered value of a receiver signal, or the
    /// value a never-published sender signal still owns
    #[verifier::external_body]
    pub unsafe fn assume_init(&self) -> (r: T)
        requires /*@tag:O-evidence-before-read C04 C16 C01 C03 C18*/ self.delivered() || self.owns_payload(), /*@tag:O-size-dispatch C04 C05 C03 C18*/ !big::<T>(),
        ensures self.owns_payload() ==> r == payload(self.term()), !self.owns_payload() ==> r == received(self.term())
    { unimplemented!() }
}

impl<T> SignalTerminator<T> {
    /// T2
    #[verifier::external_body]
    pub unsafe fn send(self, data: T, Tracked(fx): Tracked<&mut Fx<T>>)
        requires /*@tag:O-own-pop C01 C03 C05 C04 C18*/ old(fx).used.count((self, Role::Receiver)) < old(fx).popped.count((self, Role::Receiver)),
        ensures final(fx).used == old(fx).used.insert((self, Role::Receiver)), final(fx).sent == old(fx).sent.push((self, data)),
            final(fx).popped == old(fx).popped, final(fx).cs == old(fx).cs, final(fx).taken == old(fx).taken,
            final(fx).terminated == old(fx).terminated, final(fx).held == old(fx).held, final(fx).listed == old(fx).listed,
            final(fx).local_drops == old(fx).local_drops, final(fx).local_reads == old(fx).local_reads, final(fx).roles == old(fx).roles, final(fx).sig_drops == old(fx).sig_drops,
    { unimplemented!() }
    /// T3
    #[verifier::external_body]
    pub unsafe fn recv(self, Tracked(fx): Tracked<&mut Fx<T>>) -> (r: T)
        requires /*@tag:O-own-pop C01 C03 C05 C04 C18*/ old(fx).used.count((self, Role::Sender)) < old(fx).popped.count((self, Role::Sender)),
        ensures r == payload(self),
            final(fx).used == old(fx).used.insert((self, Role::Sender)), final(fx).taken == old(fx).taken.push(self),
            final(fx).popped == old(fx).popped, final(fx).cs == old(fx).cs, final(fx).sent == old(fx).sent,
            final(fx).terminated == old(fx).terminated, final(fx).held == old(fx).held, final(fx).listed == old(fx).listed,
            final(fx).local_drops == old(fx).local_drops, final(fx).local_reads == old(fx).local_reads, final(fx).roles == old(fx).roles, final(fx).sig_drops == old(fx).sig_drops,
    { unimplemented!() }
    /// T4
    #[verifier::external_body]
    pub unsafe fn terminate(&self, Tracked(fx): Tracked<&mut Fx<T>>)
        ensures final(fx).terminated == old(fx).terminated.push(*self),
            final(fx).popped == old(fx).popped, final(fx).cs == old(fx).cs, final(fx).sent == old(fx).sent,
            final(fx).taken == old(fx).taken, final(fx).used == old(fx).used, final(fx).held == old(fx).held, final(fx).listed == old(fx).listed,
            final(fx).local_drops == old(fx).local_drops, final(fx).local_reads == old(fx).local_reads, final(fx).roles == old(fx).roles, final(fx).sig_drops == old(fx).sig_drops,
    { unimplemented!() }
    #[verifier::external_body]
    pub fn eq(&self, other: &Signal<T>) -> (r: bool) ensures r == (*self == other.term()) { unimplemented!() }
}

// ------------------------------------------------------------------ futures: trusted leaves
pub uninterp spec fn ctx_waker(c: &Context<'_>) -> Waker;
pub assume_specification<'a> [core::task::Context::<'a>::waker] (_0: &core::task::Context<'a>) -> (r: &'a Waker)
    ensures *r == ctx_waker(_0);

/// X3 stand-in for Pin<Box<F>>
impl<F> PinBox<F> {
    pub uninterp spec fn view(&self) -> F;
    #[verifier::external_body]
    pub fn new(f: F) -> (r: Self) ensures r.view() == f { unimplemented!() }
    #[verifier::external_body]
    pub fn as_mut(&mut self) -> (res: &mut F) ensures *res == old(self).view(), *final(res) == final(self).view() { unimplemented!() }
}

/// the value a send future still owns (meaningful in states Zero / Waiting)
pub open spec fn send_fut_value<T>(f: SendFuture<'_, T>) -> T {
    if big::<T>() { f.data.mem_contents().value() } else { payload(f.sig.term()) }
}
/// X10 stand-in for `core::ptr::read(p)`: a bitwise read through a raw pointer obtained from
/// `MaybeUninit::as_ptr` of an initialised slot (T8)
pub uninterp spec fn cptr_init<T>(p: *const T) -> bool;
pub uninterp spec fn cptr_val<T>(p: *const T) -> T;
#[verifier::external_body]
pub unsafe fn raw_ptr_read<T>(p: *const T) -> (r: T)
    requires /*@tag:O-read-init C04 C05 C16 C03 C18*/ cptr_init(p),
    ensures r == cptr_val(p)
{ unimplemented!() }
pub assume_specification<T> [core::mem::MaybeUninit::<T>::as_ptr] (_0: &core::mem::MaybeUninit<T>) -> (r: *const T)
    ensures cptr_init(r) == (_0.mem_contents() is Init), _0.mem_contents() matches MemContents::Init(v) ==> cptr_val(r) == v;

// ------------------------------------------------------------------ T9: clock
pub uninterp spec fn reached(t: Instant) -> bool;
impl Instant {
    pub uninterp spec fn plus(self, d: Duration) -> Instant;
    pub uninterp spec fn representable(self, d: Duration) -> bool;
    #[verifier::external_body]
    pub fn now() -> (t: Instant) ensures reached(t) { unimplemented!() }
    #[verifier::external_body]
    pub fn checked_add(&self, d: Duration) -> (r: Option<Instant>)
        ensures self.representable(d) ==> r == Some(self.plus(d)) { unimplemented!() }
}
impl PartialEq for Instant {
    #[verifier::external_body]
    fn eq(&self, other: &Self) -> bool { unimplemented!() }
}
/// `reached` is downward closed: if a reached instant is later than `d`, `d` has been reached
impl PartialOrd for Instant {
    #[verifier::external_body]
    fn partial_cmp(&self, other: &Self) -> Option<core::cmp::Ordering> { unimplemented!() }
    // `reached` is downward closed: an instant not later than a reached instant has been reached
    #[verifier::external_body]
    fn gt(&self, other: &Self) -> (b: bool)
        ensures b ==> (reached(*self) ==> reached(*other)), !b ==> (reached(*other) ==> reached(*self)) { unimplemented!() }
    #[verifier::external_body]
    fn lt(&self, other: &Self) -> (b: bool)
        ensures b ==> (reached(*other) ==> reached(*self)), !b ==> (reached(*self) ==> reached(*other)) { unimplemented!() }
    #[verifier::external_body]
    fn ge(&self, other: &Self) -> (b: bool)
        ensures b ==> (reached(*self) ==> reached(*other)), !b ==> (reached(*other) ==> reached(*self)) { unimplemented!() }
    #[verifier::external_body]
    fn le(&self, other: &Self) -> (b: bool)
        ensures b ==> (reached(*other) ==> reached(*self)), !b ==> (reached(*self) ==> reached(*other)) { unimplemented!() }
}

// ------------------------------------------------------------------ std functions vstd does not specify
pub uninterp spec fn spec_needs_drop<T: ?Sized>() -> bool;
pub assume_specification<T: ?Sized> [core::mem::needs_drop::<T>] () -> (b: bool) ensures b == spec_needs_drop::<T>();

pub assume_specification<T> [core::mem::MaybeUninit::<T>::as_mut_ptr] (_0: &mut core::mem::MaybeUninit<T>) -> (r: *mut T)
    ensures
        ptr_manual(r),
        // lending an initialised slot: the peer may read `ptr_val(r)`; if a peer (over)writes it, the slot
        // ends with what the peer wrote
        old(_0).mem_contents() matches MemContents::Init(v) ==> ptr_val(r) == v && final(_0).mem_contents() is Init
            && final(_0).mem_contents().value() == (if ptr_filled(r) { ptr_fill_val(r) } else { v }),
        // lending an empty slot: it is initialised exactly if a peer fills it, with what the peer wrote
        old(_0).mem_contents() is Uninit ==> ((final(_0).mem_contents() is Init) <==> ptr_filled(r)),
        old(_0).mem_contents() is Uninit ==> (final(_0).mem_contents() matches MemContents::Init(v) ==> v == ptr_fill_val(r));
pub assume_specification<T> [core::mem::MaybeUninit::<T>::assume_init_drop] (_0: &mut core::mem::MaybeUninit<T>)
    requires old(_0).mem_contents() is Init,
    ensures final(_0).mem_contents() is Uninit;
pub assume_specification<T> [core::mem::MaybeUninit::<T>::write] (_0: &mut core::mem::MaybeUninit<T>, _1: T) -> (r: &mut T)
    ensures *r == _1, final(_0).mem_contents() == MemContents::Init(*final(r));
pub assume_specification<T, A: core::alloc::Allocator> [alloc::vec::Vec::<T, A>::capacity] (_0: &alloc::vec::Vec<T, A>) -> (c: usize)
    ensures c >= _0@.len();

pub assume_specification<T, A: core::alloc::Allocator> [alloc::collections::VecDeque::<T, A>::capacity] (_0: &alloc::collections::VecDeque<T, A>) -> (c: usize)
    ensures c >= _0@.len();
pub assume_specification<T, A: core::alloc::Allocator> [alloc::collections::VecDeque::<T, A>::is_empty] (_0: &alloc::collections::VecDeque<T, A>) -> (b: bool)
    ensures b == (_0@.len() == 0);

// more of VecDeque's API (so that code using it is decided instead of being rejected as unsupported)
pub assume_specification<T, A: core::alloc::Allocator> [alloc::collections::VecDeque::<T, A>::front] (_0: &alloc::collections::VecDeque<T, A>) -> (r: Option<&T>)
    ensures _0@.len() == 0 ==> r is None, _0@.len() > 0 ==> r == Some(&_0@[0]);
pub assume_specification<T, A: core::alloc::Allocator> [alloc::collections::VecDeque::<T, A>::back] (_0: &alloc::collections::VecDeque<T, A>) -> (r: Option<&T>)
    ensures _0@.len() == 0 ==> r is None, _0@.len() > 0 ==> r == Some(&_0@[_0@.len() - 1]);
pub assume_specification<T, A: core::alloc::Allocator> [alloc::collections::VecDeque::<T, A>::get] (_0: &alloc::collections::VecDeque<T, A>, _1: usize) -> (r: Option<&T>)
    ensures _1 >= _0@.len() ==> r is None, _1 < _0@.len() ==> r == Some(&_0@[_1 as int]);
pub assume_specification<T, A: core::alloc::Allocator> [alloc::collections::VecDeque::<T, A>::swap_remove_back] (_0: &mut alloc::collections::VecDeque<T, A>, _1: usize) -> (r: Option<T>)
    ensures
        _1 >= old(_0)@.len() ==> r is None && final(_0)@ == old(_0)@,
        _1 < old(_0)@.len() ==> r == Some(old(_0)@[_1 as int])
            && final(_0)@ =~= old(_0)@.update(_1 as int, old(_0)@[old(_0)@.len() - 1]).take(old(_0)@.len() - 1);
pub assume_specification<T, A: core::alloc::Allocator> [alloc::collections::VecDeque::<T, A>::swap_remove_front] (_0: &mut alloc::collections::VecDeque<T, A>, _1: usize) -> (r: Option<T>)
    ensures
        _1 >= old(_0)@.len() ==> r is None && final(_0)@ == old(_0)@,
        _1 < old(_0)@.len() ==> r == Some(old(_0)@[_1 as int])
            && final(_0)@ =~= old(_0)@.update(_1 as int, old(_0)@[0]).skip(1);
pub assume_specification<T, A: core::alloc::Allocator> [alloc::collections::VecDeque::<T, A>::as_slices] (_0: &alloc::collections::VecDeque<T, A>) -> (r: (&[T], &[T]))
    ensures 0 <= vd_split(_0) <= _0@.len(), r.0@ == _0@.take(vd_split(_0)), r.1@ == _0@.skip(vd_split(_0));
/// where the ring buffer of a VecDeque wraps around (unknown, but fixed while the deque is not modified)
pub uninterp spec fn vd_split<T, A: core::alloc::Allocator>(v: &alloc::collections::VecDeque<T, A>) -> int;

pub assume_specification<T, A: core::alloc::Allocator, F: FnMut(&T) -> bool> [alloc::collections::VecDeque::<T, A>::retain] (_0: &mut alloc::collections::VecDeque<T, A>, _1: F)
    ensures final(_0)@ == old(_0)@.filter(|x: T| _1.ensures((&x,), true));

// ------------------------------------------------------------------ X5 stand-ins for the eight conversions
// The real `to_* / as_*` are `unsafe { transmute(self) }` (AST shape obligation X5-shape, layout identity by Kani K4);
// a transmute between layout-identical wrappers of the same `internal` is the identity on that field.  Woven code
// that *calls* a conversion (none in the pinned tree) is judged against this.
impl<T> Sender<T> {
    #[verifier::external_body]
    pub fn to_async(self) -> (r: AsyncSender<T>) ensures r.internal == self.internal { unimplemented!() }
    #[verifier::external_body]
    pub fn as_async(&self) -> (r: &AsyncSender<T>) ensures r.internal == self.internal { unimplemented!() }
}
impl<T> AsyncSender<T> {
    #[verifier::external_body]
    pub fn to_sync(self) -> (r: Sender<T>) ensures r.internal == self.internal { unimplemented!() }
    #[verifier::external_body]
    pub fn as_sync(&self) -> (r: &Sender<T>) ensures r.internal == self.internal { unimplemented!() }
}
impl<T> Receiver<T> {
    #[verifier::external_body]
    pub fn to_async(self) -> (r: AsyncReceiver<T>) ensures r.internal == self.internal { unimplemented!() }
    #[verifier::external_body]
    pub fn as_async(&self) -> (r: &AsyncReceiver<T>) ensures r.internal == self.internal { unimplemented!() }
}
impl<T> AsyncReceiver<T> {
    #[verifier::external_body]
    pub fn to_sync(self) -> (r: Receiver<T>) ensures r.internal == self.internal { unimplemented!() }
    #[verifier::external_body]
    pub fn as_sync(&self) -> (r: &Receiver<T>) ensures r.internal == self.internal { unimplemented!() }
}

/*@@WOVEN@@*/

} // verus!
fn main() {}
