#!/usr/bin/env python3
"""Regenerates /verif/MANIFEST.json from driver/props.py and driver/manifest_text.py."""
import json, os, sys
HERE = os.path.dirname(os.path.abspath(__file__))
sys.path.insert(0, HERE)
import props as P
import manifest_text as M

root = os.path.dirname(HERE)
checks = []
for pid in sorted(P.PROPS):
    t = M.TEXT[pid]
    checks.append({
        "property_id": pid,
        "quick_cmd": "./check %s --tier quick" % pid,
        "thorough_cmd": "./check %s --tier thorough" % pid,
        "evidence_file": "/verif/evidence/%s.json" % pid,
        "replay_cmd_template": "./check %s --replay {path}" % pid,
        "engine": "kweave+verus" + ("+kani" if t.get("kani") else ""),
        "level_claimed": {"category": "proof", "text": t["level"], "design_ref": t["design_ref"]},
        "level_note": t["note"],
        "technique": t["technique"],
    })
na = [{"property_id": k, "reason": v} for k, v in sorted(M.NOT_APPLICABLE.items()) if k not in P.PROPS]
man = {
    "version": 1,
    "setup_cmd": "cd /verif/weave && CARGO_NET_OFFLINE=true cargo build --release --offline",
    "hooks": {
        "guard": "kanal_verif",
        "enable": "none needed: the machinery extracts function text from /repo/src and mounts the unmodified crate for Kani; no hook commits exist",
        "baseline_off_cmd": "cd /repo && cargo test --workspace --no-fail-fast --offline",
        "source_commits": [],
        "add_only": True,
    },
    "engines": [
        {"name": "kweave", "path": "/verif/weave", "serves_properties": sorted(P.PROPS), "kind_free_text": "syn/span based extractor: copies real function text from /repo/src, inserts ghost-only contract text, applies the declared exec rewrites X1-X14, audits byte fidelity"},
        {"name": "verus", "path": "/usr/local/bin/verus", "serves_properties": sorted(P.PROPS), "kind_free_text": "deductive verifier (SMT/Z3), single-file mode on the woven units"},
        {"name": "kani", "path": "/verif/kani/harness.rs", "serves_properties": ["C01", "C04", "C05", "C09", "C12", "C16"], "kind_free_text": "Kani 0.68 / CBMC 6.11 function-level harnesses K1 (pointer.rs), K2 (signal.rs sequential protocol), K4 (layout): loop-free over kani::any(), complete per type instance; K3 bounded (thorough tier); counter-examples replayed natively by cargo kani playback"},
        {"name": "glue", "path": "/verif/contracts/glue_u1_u2.rs", "serves_properties": ["C04", "C13", "C15", "C16"], "kind_free_text": "hand-written Verus lemmas: contracts proved in unit U2 imply contracts assumed in unit U1 (given the protocol axiom R2a)"},
        {"name": "check", "path": "/verif/check", "serves_properties": sorted(P.PROPS), "kind_free_text": "driver: weave, verify (normal + vacuity pass), classify diagnostics into named obligations, known-findings, evidence"},
    ],
    "checks": checks,
    "not_applicable": na,
    "notes": M.NOTES,
}
json.dump(man, open(os.path.join(root, "MANIFEST.json"), "w"), indent=1)
print("MANIFEST.json: %d checks, %d not_applicable" % (len(checks), len(na)))
