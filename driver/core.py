"""kanal contract-verification driver (see DESIGN.md §3.7)."""
import sys, os, json, subprocess, tempfile, shutil, time, hashlib, re, concurrent.futures

import props as P

VERIFY_MSGS = (
    "postcondition not satisfied", "precondition not satisfied", "assertion failed",
    "invariant not satisfied", "possible arithmetic", "possible division by zero",
    "decreases not satisfied", "loop invariant", "possible bit shift", "unreachable",
    "cannot show invariant", "panic", "constructed value may fail to meet its declared type invariant",
    "possible truncation", "index out of bounds", "could not prove termination", "precondition not met",
)
UNDECIDED_MSGS = ("Resource limit (rlimit) exceeded", "rlimit", "timed out", "while proving termination")


def sh(cmd, **kw):
    return subprocess.run(cmd, stdout=subprocess.PIPE, stderr=subprocess.PIPE, text=True, **kw)


class Undecided(Exception):
    pass


# spec lemmas over the reference channel (contracts/spec_*.rs): lemma name -> (obligation id, properties)
LEMMAS = {
    "lemma_wf_abstract": ("L-WF.abstract", ["C03", "C08"]),
    "lemma_L_WF": ("L-WF", ["C03", "C08", "C02"]),
    "lemma_L_FIFO": ("L-FIFO", ["C02"]),
    "lemma_L_CONS": ("L-CONS", ["C01"]),
    "lemma_L_CAP": ("L-CAP", ["C08"]),
    "lemma_L_CLOSED": ("L-CLOSED", ["C10"]),
    "lemma_L_DISC": ("L-DISC", ["C11"]),
    "lemma_L_COUNT": ("L-COUNT", ["C12"]),
    "lemma_mutex_step": ("L-MUTEX", ["C17"]),
    # whole-history induction over all finite sequences of reference steps
    "lemma_hstep_preserves": ("H-STEP", ["C01", "C02", "C03", "C08", "C10"]),
    "lemma_hstep_send": ("H-STEP.send", ["C01", "C02", "C08"]),
    "lemma_hstep_send_register": ("H-STEP.send-register", ["C01", "C02"]),
    "lemma_hstep_recv": ("H-STEP.recv", ["C01", "C02"]),
    "lemma_hstep_recv_register": ("H-STEP.recv-register", ["C01", "C02"]),
    "lemma_hstep_cancel_sender": ("H-STEP.cancel-sender", ["C01", "C02"]),
    "lemma_hstep_cancel_receiver": ("H-STEP.cancel-receiver", ["C01", "C02"]),
    "lemma_hstep_close": ("H-STEP.close", ["C01", "C10"]),
    "lemma_hstep_clone": ("H-STEP.clone", ["C01"]),
    "lemma_hstep_drop_sender": ("H-STEP.drop-sender", ["C01", "C02"]),
    "lemma_hstep_drop_receiver": ("H-STEP.drop-receiver", ["C01", "C02"]),
    "lemma_H_INV": ("H-INV", ["C01", "C02", "C03", "C08", "C10"]),
    "lemma_cap_constant": ("H-CAP", ["C08"]),
    # glue U2 (proved) ==> U1 (assumed), contracts/glue_u1_u2.rs
    "lemma_glue_poll": ("GLUE.poll", ["C16", "C04", "C15", "C01", "C08", "C10", "C11", "C03", "C18"]),
    "lemma_glue_async_blocking_wait": ("GLUE.async_blocking_wait", ["C15", "C16", "C04", "C01", "C10", "C11", "C03", "C18"]),
    "lemma_glue_wait_timeout": ("GLUE.wait_timeout", ["C13", "C04", "C01", "C08", "C10", "C11", "C03", "C18"]),
    "lemma_glue_wait": ("GLUE.wait", ["C01", "C04", "C08", "C10", "C11", "C13", "C03", "C18"]),
    "lemma_glue_is_terminated": ("GLUE.is_terminated", ["C13", "C03", "C18"]),
    "lemma_glue_timeout_not_early": ("GLUE.timeout-not-early", ["C13", "C03", "C18"]),
}
GLUE_QUOTES = {"u2.kc": ["O-poll.final-only", "O-abw.final-only", "O-wait_timeout.success", "O-not-early", "O-is_terminated", "O-wait.final-only"],
               "prelude_u1.rs": ["pub fn poll(&self)", "pub fn async_blocking_wait(&self", "pub fn wait_timeout(&self", "pub fn is_terminated(&self"]}


def scan_lemmas(rs_text):
    """[(start_line, end_line, name)] of the proof fns in the spec part of a woven unit"""
    out = []
    lines = rs_text.splitlines()
    cur = None
    for i, l in enumerate(lines, 1):
        if "woven from the working tree (kweave)" in l:
            if cur:
                out.append((cur[0], i - 1, cur[1]))
                cur = None
            break
        m = re.match(r"\s*pub proof fn (lemma_\w+)", l)
        if m:
            if cur:
                out.append((cur[0], i - 1, cur[1]))
            cur = (i, m.group(1))
        elif cur and re.match(r"^(pub |// =====|impl|#\[)", l):
            out.append((cur[0], i - 1, cur[1]))
            cur = None
    if cur:
        out.append((cur[0], len(lines), cur[1]))
    return out


def weaver_bin(here):
    b = os.path.join(here, "weave", "target", "release", "kweave")
    src_m = max(os.path.getmtime(os.path.join(here, "weave", "src", f)) for f in os.listdir(os.path.join(here, "weave", "src")))
    if not os.path.exists(b) or os.path.getmtime(b) < src_m:
        env = dict(os.environ, CARGO_NET_OFFLINE="true")
        r = sh(["cargo", "build", "--release", "--offline"], cwd=os.path.join(here, "weave"), env=env)
        if r.returncode != 0:
            raise Undecided("cannot build kweave: " + r.stderr[-2000:])
    return b


def weave(here, repo, unit, out_rs, out_map, vacuity=False, localise=False):
    cmd = [weaver_bin(here), "--repo", repo]
    for kc in P.UNITS[unit]["kc"]:
        cmd += ["--kc", os.path.join(here, "contracts", kc)]
    cmd += ["--out", out_rs, "--map", out_map]
    if vacuity:
        cmd.append("--vacuity")
    if localise:
        cmd.append("--localise")
    r = sh(cmd)
    if r.returncode != 0:
        raise Undecided("kweave failed (unit %s): %s" % (unit, (r.stderr or r.stdout)[-3000:]))
    return json.load(open(out_map)), r.stdout.strip()


def run_verus(rs, seed=None, rlimit=None, threads=16):
    # configuration A5: default features, release semantics (`debug_assert!` / `cfg(debug_assertions)` code is compiled out;
    # arithmetic overflow is an obligation regardless)
    cmd = ["verus", os.path.basename(rs), "--cfg", 'feature="async"', "-C", "debug-assertions=off", "--multiple-errors", "200",
           "--num-threads", str(threads), "--output-json", "--time", "--error-format=json"]
    # default budget doubled (20): the heaviest proof uses about a tenth of it, so a perturbed SMT context does not
    # turn into a spurious "rlimit exceeded" (which would be exit 2)
    cmd += ["--rlimit", str(rlimit or 20)]
    if seed is not None:
        cmd += ["--smt-option", "smt.random_seed=%d" % (seed % 100000)]
    t0 = time.time()
    r = sh(cmd, cwd=os.path.dirname(rs))
    wall = time.time() - t0
    try:
        out = json.loads(r.stdout)
    except Exception:
        out = None
    diags = []
    raw = []
    for line in r.stderr.splitlines():
        line = line.strip()
        if not line:
            continue
        try:
            j = json.loads(line)
            if j.get("$message_type") == "diagnostic":
                diags.append(j)
            else:
                raw.append(line)
        except Exception:
            raw.append(line)
    return {"cmd": " ".join(cmd), "json": out, "diags": diags, "raw": raw, "wall": wall, "rc": r.returncode}


def scan_tags(rs_text):
    """/*@tag:ID P1 P2*/ markers in prelude text: line -> (id, props)."""
    tags = {}
    for i, line in enumerate(rs_text.splitlines(), 1):
        for m in re.finditer(r"/\*@tag:([^*]+)\*/", line):
            ws = m.group(1).split()
            tags[i] = (ws[0], ws[1:])
    return tags


def classify(res, wmap, rs_text, unit):
    """Turn Verus diagnostics into a list of failures.
    failure = dict(kind, ob (or None), id, props, func, exit_text, src, rendered, message)"""
    if res["json"] is None:
        raise Undecided("verus produced no JSON (unit %s): %s" % (unit, "\n".join(res["raw"])[-2000:]))
    vr = res["json"].get("verification-results", {})
    lines = rs_text.splitlines()
    obs = wmap["obligations"]
    tags = scan_tags(rs_text)
    lemmas = scan_lemmas(rs_text)
    funcs = [f for f in wmap["functions"] if f.get("woven") and "out_line" in f]
    line_src = wmap["line_src"]

    def ob_at(line):
        for o in obs:
            for (a, b) in o.get("sites", []):
                if a <= line <= b:
                    return o
        return None

    def func_at(line):
        for f in funcs:
            if f["out_line"] <= line <= f["out_end_line"]:
                return f
        return None

    def src_at(line):
        # the line itself, else the next woven line that carries source text (ghost asserts sit just before their exit)
        for l in range(line, min(line + 15, len(line_src))):
            if line_src[l]:
                return line_src[l]
        return None

    failures = []
    vir_ok = False
    for d in res["diags"]:
        lvl = d.get("level")
        msg = d.get("message", "")
        if lvl != "error":
            continue
        if msg.startswith("aborting due to"):
            continue
        if d.get("code"):
            raise Undecided("compile error in woven unit %s: %s" % (unit, d.get("rendered", msg)[:3000]))
        if any(u in msg for u in UNDECIDED_MSGS):
            raise Undecided("solver gave up (unit %s): %s" % (unit, d.get("rendered", msg)[:2000]))
        if msg.startswith("loop must have a decreases clause"):
            # a loop without a termination measure in a function that is not allowed to wait for a peer:
            # the termination obligation of C14 / C17 ("returns within a bounded number of steps") that was
            # discharged on the unchanged tree (no such loop) is no longer discharged
            sp = (d.get("spans") or [{}])[0]
            fn = func_at(sp.get("line_start", 0))
            blocking = fn is not None and any(o["func"] == fn["func"] and o["id"] == "E.peer" for o in obs)
            if fn is not None and not blocking:
                src = src_at(sp["line_start"])
                failures.append({"kind": "implicit-termination", "id": "O-terminates", "props": ["C14", "C18"] + (["C17"] if unit == "u2" else []),
                                 "func": fn["func"], "text": "every loop of a function that must not wait has a termination measure (decreases)",
                                 "exit_text": src_line_text(src, wmap) if src else "", "src": src, "message": msg, "rendered": d.get("rendered", ""),
                                 "ob_idx": None, "unit": unit})
                vir_ok = True
                continue
            raise Undecided("a loop without a loop contract in %s (unit %s): %s" % (fn["func"] if fn else "?", unit, d.get("rendered", msg)[:2000]))
        if not any(msg.startswith(v) or v in msg for v in VERIFY_MSGS):
            raise Undecided("unclassified Verus error (unit %s): %s" % (unit, d.get("rendered", msg)[:3000]))
        spans = d.get("spans", [])
        prim = [s for s in spans if s.get("is_primary")]
        sec = [s for s in spans if not s.get("is_primary")]
        ob = None
        tag = None
        where = None  # span locating the exit / call site / assert in a woven function
        for s in prim + sec:
            o = ob_at(s["line_start"])
            if o is not None and ob is None:
                ob = o
            t = tags.get(s["line_start"])
            if t is not None and tag is None:
                tag = t
        # location: prefer a span inside a woven function body that is not the clause itself
        for s in sec + prim:
            if ob is not None and ob["kind"] in ("requires", "ensures") and any(a <= s["line_start"] <= b for (a, b) in ob.get("sites", [])):
                continue
            if func_at(s["line_start"]):
                where = s
                break
        if where is None:
            for s in prim + sec:
                if func_at(s["line_start"]):
                    where = s
                    break
        # exit obligations carry a marker with the source line of the exit they guard
        xsrc = None
        if where is not None and ob is not None and ob["kind"] in ("exit-assert", "ensures@exit", "vacuity"):
            for l in range(where["line_start"], max(where["line_start"] - 40, 0), -1):
                mm = re.findall(r"/\*@x:(\d+)\*/", lines[l - 1])
                if mm:
                    xsrc = int(mm[-1])
                    break
        fn = func_at(where["line_start"]) if where else None
        func = ob["func"] if ob is not None and ob["kind"] != "requires" else (fn["func"] if fn else (ob["func"] if ob else "?"))
        src = src_at(where["line_start"]) if where else None
        if xsrc is not None and fn is not None:
            src = [fn["file"], xsrc]
        exit_text = ""
        if where is not None:
            label = where.get("label") or ""
            if "end of the function body" in label:
                exit_text = "<end of function body>"
            elif src:
                exit_text = src_line_text(src, wmap)
            else:
                exit_text = lines[where["line_start"] - 1].strip()
        lem = None
        if ob is None and tag is None:
            for sp in prim + sec:
                for (a, b, name) in lemmas:
                    if a <= sp["line_start"] <= b and name in LEMMAS:
                        lem = name
        if lem is not None:
            fid, fprops, kind, text = LEMMAS[lem][0], LEMMAS[lem][1], "spec-lemma", lem
            func = lem
        elif ob is not None:
            fid, fprops, kind = ob["id"], ob["props"], ob["kind"]
            text = ob["text"]
        elif tag is not None:
            fid, fprops, kind, text = tag[0], tag[1], "trusted-leaf-requires", ""
        else:
            # implicit obligation: overflow, panic, unwrap, index, termination
            kind = "implicit"
            fid = "implicit:" + re.sub(r"[^a-z]+", "-", msg.lower()).strip("-")[:40]
            fprops = ["C18"] + (["C14"] if ("decreases" in msg or "termination" in msg) else [])
            text = msg
        failures.append({
            "kind": kind, "id": fid, "props": fprops, "func": func, "text": text,
            "exit_text": exit_text, "src": src, "message": msg, "rendered": d.get("rendered", ""),
            "ob_idx": ob["idx"] if ob is not None else None, "unit": unit,
        })
    if vr.get("encountered-vir-error") and not vir_ok:
        raise Undecided("Verus reported an unsupported construct / VIR error (unit %s): %s" % (unit, "\n".join(x.get("rendered", "") for x in res["diags"])[-3000:]))
    # shape obligations recorded by the weaver itself
    for o in obs:
        if o["kind"] == "shape-failed":
            failures.append({"kind": "shape", "id": o["id"], "props": o["props"], "func": o["func"], "text": o["text"],
                             "exit_text": "", "src": None, "message": "body shape changed", "rendered": o["text"], "ob_idx": o["idx"], "unit": unit})
    return failures


_src_cache = {}


def src_line_text(src, wmap):
    f, l = src
    repo = wmap.get("_repo", "/repo")
    p = os.path.join(repo, "src", f)
    if p not in _src_cache:
        try:
            _src_cache[p] = open(p).read().splitlines()
        except Exception:
            _src_cache[p] = []
    ls = _src_cache[p]
    return " ".join(ls[l - 1].split()) if 0 < l <= len(ls) else ""


def load_known(here):
    findings, fixed = [], []
    p = os.path.join(here, "known_findings.txt")
    if os.path.exists(p):
        for line in open(p):
            line = line.strip()
            if not line or line.startswith("#"):
                continue
            if line.startswith("finding:"):
                kv = dict(re.findall(r'(\w+)=("[^"]*"|\S+)', line))
                kv = {k: v.strip('"') for k, v in kv.items()}
                kv["_line"] = line
                findings.append(kv)
            elif line.startswith("fixed:"):
                fixed.append(line)
    return findings, fixed


def known_match(f, prop, findings):
    for k in findings:
        if k.get("property") != prop:
            continue
        if k.get("obligation") != f["id"]:
            continue
        if k.get("func") and k["func"] != f["func"]:
            continue
        if k.get("exit") and " ".join(k["exit"].split()) != " ".join(f["exit_text"].split()):
            continue
        return k
    return None


def verify_static(here, unit, tmp):
    """a hand-written lemma file (no woven code): verify it as it is"""
    src = os.path.join(here, "contracts", P.UNITS[unit]["static"])
    for f, quotes in GLUE_QUOTES.items():
        txt = open(os.path.join(here, "contracts", f)).read()
        for q in quotes:
            if q not in txt:
                raise Undecided("glue file is out of date: `%s` no longer occurs in contracts/%s" % (q, f))
    rs = os.path.join(tmp, unit + ".rs")
    shutil.copy(src, rs)
    res = run_verus(rs, None, None, 4)
    rs_text = open(rs).read()
    wmap = {"obligations": [], "functions": [], "line_src": [], "rewrites": [], "uncontracted": [], "audit_failures": [], "_repo": "/repo"}
    failures = classify(res, wmap, rs_text, unit)
    return {"unit": unit, "map": wmap, "res": res, "vres": None, "failures": failures, "vac_total": 0, "vac_unreached": [],
            "weave_log": "static", "stability": None, "rs": rs, "rs_text": rs_text}


def verify_unit(here, repo, unit, tmp, seed, tier):
    """weave + verus (normal and vacuity) for one unit; returns dict"""
    if "static" in P.UNITS[unit]:
        return verify_static(here, unit, tmp)
    rs = os.path.join(tmp, unit + ".rs")
    mp = os.path.join(tmp, unit + ".map.json")
    vrs = os.path.join(tmp, unit + "_vac.rs")
    vmp = os.path.join(tmp, unit + "_vac.map.json")
    wmap, wlog = weave(here, repo, unit, rs, mp, False)
    if os.environ.get("VERIF_DEV_NOVAC"):
        # development sweeps only: no vacuity pass
        wmap["_repo"] = repo
        res = run_verus(rs, None, None, 8)
        rs_text = open(rs).read()
        return {"unit": unit, "map": wmap, "res": res, "vres": None, "failures": classify(res, wmap, rs_text, unit), "vac_total": 0,
                "vac_unreached": [], "weave_log": wlog, "stability": None, "rs": rs, "rs_text": rs_text}
    vmap, _ = weave(here, repo, unit, vrs, vmp, True)
    wmap["_repo"] = repo
    vmap["_repo"] = repo
    with concurrent.futures.ThreadPoolExecutor(max_workers=3) as ex:
        f1 = ex.submit(run_verus, rs, None, None, 8)
        f2 = ex.submit(run_verus, vrs, None, None, 8)
        f3 = ex.submit(run_verus, rs, seed + 7919, 80, 8) if tier == "thorough" else None
        res, vres = f1.result(), f2.result()
        res2 = f3.result() if f3 else None
    rs_text = open(rs).read()
    failures = classify(res, wmap, rs_text, unit)
    # §3.8 localisation: a failed `ensures` that Verus attributes to "the end of the function body" is
    # re-checked with every ensures clause asserted at each exit, which names the exit
    if any(f["exit_text"] == "<end of function body>" and f["kind"] == "ensures" for f in failures):
        try:
            lrs = os.path.join(tmp, unit + "_loc.rs")
            lmp = os.path.join(tmp, unit + "_loc.map.json")
            lmap, _ = weave(here, repo, unit, lrs, lmp, False, True)
            lmap["_repo"] = repo
            lres = run_verus(lrs, None, None, 8)
            lfail = [f for f in classify(lres, lmap, open(lrs).read(), unit) if f["kind"] == "ensures@exit"]
            out = []
            for f in failures:
                if f["exit_text"] == "<end of function body>" and f["kind"] == "ensures":
                    loc = [g for g in lfail if g["id"] == f["id"] and g["func"] == f["func"]]
                    if loc:
                        for g in loc:
                            g2 = dict(f)
                            g2["exit_text"], g2["src"] = g["exit_text"], g["src"]
                            g2["rendered"] = f["rendered"] + "\n--- localised (ensures asserted at each exit) ---\n" + g["rendered"]
                            out.append(g2)
                        continue
                out.append(f)
            failures = out
        except Undecided:
            pass
    stability = None
    if res2 is not None:
        f2l = classify(res2, wmap, rs_text, unit)
        a = sorted((f["id"], f["func"]) for f in failures)
        b = sorted((f["id"], f["func"]) for f in f2l)
        stability = {"second_run_rlimit_x4_seed": seed + 7919, "same_verdicts": a == b, "wall_s": round(res2["wall"], 2)}
        if a != b:
            raise Undecided("unstable proof (unit %s): verdicts differ between the default run and the rlimit x4 / reseeded run: %s vs %s" % (unit, a, b))
    # vacuity: every VACUITY assert must fail
    vac_text = open(vrs).read()
    if vres["json"] is None:
        raise Undecided("verus (vacuity pass) produced no JSON: " + "\n".join(vres["raw"])[-1500:])
    failed_lines = set()
    vac_skipped = any(d.get("level") == "error" and d.get("message", "").startswith("loop must have a decreases clause") for d in vres["diags"])
    for d in ([] if vac_skipped else vres["diags"]):
        if d.get("level") == "error":
            m = d.get("message", "")
            if d.get("code") or not (m.startswith("aborting due to") or any(m.startswith(v) or v in m for v in VERIFY_MSGS) or any(u in m for u in UNDECIDED_MSGS)):
                raise Undecided("compile error in vacuity unit: " + d.get("rendered", "")[:2000])
        for s in d.get("spans", []):
            failed_lines.add(s["line_start"])
    vac_obs = []
    for o in ([] if vac_skipped else vmap["obligations"]):
        if o["kind"] == "vacuity":
            for (a, b) in o.get("sites", []):
                vac_obs.append({"func": o["func"], "out_line": a, "out_end_line": b})
    vac_pass = [o for o in vac_obs if not any(o["out_line"] <= l <= o["out_end_line"] for l in failed_lines)]
    for o in vac_pass:
        ls = vmap["line_src"]
        src = None
        for l in range(o["out_line"], min(o["out_line"] + 3, len(ls))):
            if ls[l]:
                src = ls[l]
                break
        o["exit_text"] = src_line_text(src, vmap) if src else ""
    return {"unit": unit, "map": wmap, "res": res, "vres": vres, "failures": failures, "vac_total": len(vac_obs),
            "vac_unreached": vac_pass, "weave_log": wlog, "stability": stability, "rs": rs, "rs_text": rs_text, "vac_map": vmap, "vac_text": vac_text}


def fn_times(res):
    out = {}
    try:
        for m in res["json"]["times-ms"]["smt"]["smt-run-module-times"]:
            for f in m.get("function-breakdown", []):
                out[f["function"]] = f
    except Exception:
        pass
    return out


def main(argv, here):
    t0 = time.time()
    if not argv:
        print(__doc__)
        return 2
    prop = argv[0]
    tier = os.environ.get("VERIF_TIER", "quick")
    repo = "/repo"
    keep = False
    replay = None
    i = 1
    while i < len(argv):
        if argv[i] == "--tier":
            tier = argv[i + 1]; i += 2
        elif argv[i] == "--repo":
            repo = argv[i + 1]; i += 2
        elif argv[i] == "--replay":
            replay = argv[i + 1]; i += 2
        elif argv[i] == "--keep":
            keep = True; i += 1
        else:
            print("unknown argument", argv[i]); return 2
    seed = int(os.environ.get("VERIF_SEED", "0") or 0)
    if prop == "ALL":
        # development mode: every unit, every obligation, no evidence file of its own
        units = os.environ.get("VERIF_DEV_UNITS", "u1,u2,glue").split(",")
        P.PROPS["ALL"] = P.mk(units, [], [], "all obligations (development sweep)")
    if prop not in P.PROPS:
        print("property %s is not claimed (see MANIFEST.json not_applicable)" % prop)
        return 2
    if replay:
        return do_replay(here, replay)
    cfg = P.PROPS[prop]
    tmp = tempfile.mkdtemp(prefix="kanal-verif-")
    rc = 2
    try:
        rc = run_property(here, repo, prop, cfg, tier, seed, tmp, t0)
    except Undecided as e:
        print("UNDECIDED property=%s reason: %s" % (prop, e))
        rc = 2
    finally:
        if keep:
            print("scratch kept at", tmp)
        else:
            shutil.rmtree(tmp, ignore_errors=True)
    return rc


def do_replay(here, path):
    j = json.load(open(path))
    print("replay file:", path)
    print("property   :", j.get("property"))
    print("obligation :", j.get("obligation"), "in", j.get("func"))
    print("source     :", j.get("src"))
    print("exit       :", j.get("exit_text"))
    if j.get("counterexample"):
        # Kani counter-example: run the concrete playback test natively against the real crate again
        import kani_engine
        tmp = tempfile.mkdtemp(prefix="kanal-verif-replay-")
        try:
            crate = kani_engine.prepare("/repo", tmp)
            src = os.path.join(crate, "src", "verif_kani.rs")
            open(src, "a").write("\n" + j["counterexample"] + "\n")
            name = re.search(r"fn (kani_concrete_playback_\w+)", j["counterexample"]).group(1)
            r = kani_engine.sh(["cargo", "kani", "playback", "-Z", "concrete-playback", "--lib", "--", name], crate)
            print(r.stdout[-3000:])
            failed = "test result: FAILED" in r.stdout
            print("native replay of the Kani counter-example on /repo: %s" % ("REPRODUCES the violation" if failed else "passes (the violation is not present in the current tree)"))
            return 1 if failed else 0
        finally:
            shutil.rmtree(tmp, ignore_errors=True)
    print("verdict    : the deductive verifier gives no model for this obligation (no-failing-input-found);")
    print("             re-run `./check %s` to re-derive it from the current tree. Verifier output follows.\n" % j.get("property"))
    print(j.get("verifier_output", ""))
    return 0


def run_property(here, repo, prop, cfg, tier, seed, tmp, t0):
    findings, fixed = load_known(here)
    units = cfg["units"]
    results = {}
    for u in units:
        results[u] = verify_unit(here, repo, u, tmp, seed, tier)
    all_obs, failed, known_hits, violations = [], [], [], []
    lemma_obs = []
    fn_list, rewrites, uncontracted = [], [], []
    smt_ms = 0.0
    wall_verus = 0.0
    vac_total = 0
    vac_unreached = []
    checker_cmds = []
    for u, r in results.items():
        wmap = r["map"]
        if wmap["audit_failures"]:
            raise Undecided("fidelity audit failed: %s" % wmap["audit_failures"])
        obs = [o for o in wmap["obligations"] if (prop in o["props"] or prop == "ALL")]
        all_obs += [(u, o) for o in obs]
        times = fn_times(r["res"])
        pf = set(o["func"] for o in obs)
        for f in wmap["functions"]:
            if f.get("func") in pf or (f.get("shape") and prop in ("C09", "C12")):
                key = None
                for k in times:
                    if k.endswith("::" + f["func"]) or k.split("::", 1)[-1] == f["func"].lstrip(":"):
                        key = k
                t = times.get(key, {})
                fn_list.append({"func": f["func"], "src": "/repo/src/%s:%d-%d" % (f["file"], f["src_line"], f["src_end_line"]),
                                "unit": u, "woven": f.get("woven", False), "smt_ms": t.get("time"), "rlimit": t.get("rlimit"),
                                "backend": "verus/z3" if f.get("woven") else "kweave AST shape match"})
        for (a, b, name) in scan_lemmas(r["rs_text"]):
            if name in LEMMAS and (prop in LEMMAS[name][1] or prop == "ALL"):
                lemma_obs.append({"obligation": LEMMAS[name][0], "kind": "spec-lemma", "function": name, "unit": u, "backend": "verus/z3",
                                  "clause": "proof fn %s in contracts/%s (pure proof over the contracts)" % (name, P.UNITS[u].get("static", "spec_%s.rs" % u))})
        rewrites += [dict(x, unit=u) for x in wmap["rewrites"]]
        uncontracted += [dict(x, unit=u) for x in wmap["uncontracted"]]
        try:
            smt_ms += r["res"]["json"]["times-ms"]["smt"]["total"]
        except Exception:
            pass
        wall_verus += r["res"]["wall"]
        vac_total += r["vac_total"]
        vac_unreached += r["vac_unreached"]
        checker_cmds.append("(cd <scratch> && %s)" % r["res"]["cmd"])
        for f in r["failures"]:
            if prop not in f["props"] and prop != "ALL":
                continue
            failed.append(f)
    # extra engines (kani groups) would be merged here
    import kani_engine
    extra_obs, extra_failed, extra_bounded, extra_cmds, extra_wall, kani_artefacts = [], [], [], [], 0.0, []
    try:
        extra = None if os.environ.get("VERIF_DEV_NOKANI") else kani_engine.run(prop, tier, here, repo, tmp, seed)
    except RuntimeError as e:
        raise Undecided("kani: %s" % e)
    if extra:
        extra_obs, extra_failed, extra_bounded, extra_cmds, extra_wall, kani_artefacts = extra
        checker_cmds += extra_cmds

    if vac_unreached:
        bad = []
        used = {}
        for o in vac_unreached:
            ok = False
            for ent in P.VACUITY_ALLOWED:
                fn, sub = ent[0], ent[1]
                mx = ent[2] if len(ent) > 2 else 10 ** 6
                if o["func"] == fn and sub in o.get("exit_text", "") and used.get(ent, 0) < mx:
                    used[ent] = used.get(ent, 0) + 1
                    ok = True
                    break
            if not ok:
                bad.append(o)
        # the guard protects a *success* against vacuity; when obligations fail anyway the failures are what is reported
        # (a change that makes an exit unreachable usually fails the function's result obligation as well)
        if bad and not failed and not extra_failed:
            raise Undecided("vacuity guard: assert(false) at an exit was PROVED (contradictory pre-conditions or unreachable exit) in: %s" % sorted(set(o["func"] + " @ " + o.get("exit_text", "") for o in bad)))
    if not all_obs and not extra_obs:
        raise Undecided("no obligation is tagged with %s (zero obligations = vacuous)" % prop)

    os.makedirs(os.path.join(here, "replays"), exist_ok=True)
    seen = set()
    for f in failed + extra_failed:
        key = (f["id"], f["func"], f["exit_text"])
        if key in seen:
            continue
        seen.add(key)
        k = known_match(f, prop, findings)
        if k:
            known_hits.append((f, k))
            continue
        h = hashlib.sha1(("%s|%s|%s|%s" % (prop, f["id"], f["func"], f["exit_text"])).encode()).hexdigest()[:10]
        rp = os.path.join(here, "replays", "%s-%s-%s.json" % (prop, re.sub(r"[^A-Za-z0-9_.-]+", "_", f["id"]), h))
        json.dump({"property": prop, "obligation": f["id"], "kind": f["kind"], "func": f["func"], "clause": f["text"],
                   "src": ("/repo/src/%s:%d" % tuple(f["src"])) if f.get("src") else None, "exit_text": f["exit_text"],
                   "verifier_output": f["rendered"], "counterexample": f.get("counterexample"),
                   "note": f.get("note", "deductive verifier gives no model: no-failing-input-found")}, open(rp, "w"), indent=1)
        violations.append((f, rp))

    failed_ob_keys = set((f.get("unit"), f.get("ob_idx")) for f in failed if f.get("ob_idx") is not None)
    n_obs = len(all_obs) + len(extra_obs) + len(lemma_obs)
    n_failed_named = len([1 for (u, o) in all_obs if (u, o["idx"]) in failed_ob_keys]) + len(set(f["id"] + f["func"] for f in extra_failed))
    # implicit failures (overflow / panic) count as one extra undischarged obligation each
    n_implicit = len(set((f["id"], f["func"], f["exit_text"]) for f in failed if f["kind"] in ("implicit", "trusted-leaf-requires", "implicit-termination")))
    n_failed_named += len(set(f["func"] for f in failed if f["kind"] == "spec-lemma"))
    n_total = n_obs + n_implicit
    n_disch = n_obs - n_failed_named

    for f, k in known_hits:
        print("KNOWN-FINDING: property=%s obligation=%s func=%s exit=\"%s\" -- %s" % (prop, f["id"], f["func"], f["exit_text"], k.get("_line", "").split("--", 1)[-1].strip()))
    for f, rp in violations:
        suffix = "" if f.get("counterexample") else " no-failing-input-found"
        print("VIOLATION property=%s replay=%s%s" % (prop, rp, suffix))
        print("  obligation %s (%s) in %s at %s: %s" % (f["id"], f["kind"], f["func"], ("/repo/src/%s:%d" % tuple(f["src"])) if f.get("src") else "?", f["exit_text"]))

    wall = time.time() - t0
    samples = []
    for (u, o) in all_obs[:6]:
        samples.append({"obligation": o["id"], "kind": o["kind"], "function": o["func"], "clause": " ".join(o["text"].split())[:300], "unit": u})
    for o in extra_obs[:4]:
        samples.append(o)
    ev = {
        "property_id": prop, "tier": tier, "seed": seed, "level": "proof",
        "coverage": {
            "obligations": n_total, "discharged": n_disch if not n_implicit else n_disch,
            "checker_cmd": " ; ".join(checker_cmds),
            "trusted_base": cfg["trusted"],
            "samples": samples,
            "functions_under_contract": fn_list,
            "obligation_ids": sorted(set(o["id"] for (_, o) in all_obs)),
            "backends": sorted(set(["verus 0.2026.09.13 / z3"] + ([x.get("backend") for x in extra_obs] if extra_obs else []))),
            "smt_time_ms": smt_ms, "verus_wall_s": round(wall_verus, 2), "extra_engine_wall_s": round(extra_wall, 2),
            "vacuity_guard": {"exit_asserts_total": vac_total, "unreached": [o["func"] + " @ " + o.get("exit_text", "") for o in vac_unreached]},
            "exec_rewrites": [{"rule": x["rule"], "func": x["func"], "at": "/repo/src/%s:%d" % (x["file"], x["src_line"]), "before": x["before"][:120], "after": x["after"][:160]} for x in rewrites],
            "fidelity_audit": "ok: woven text minus marked ghost insertions, with recorded rewrites undone, is byte-identical to the source span of every function",
            "functions_not_under_contract": uncontracted,
            "bounded_stand_ins": extra_bounded,
            "kani_harnesses": extra_obs,
            "spec_lemmas": lemma_obs,
            "kani_tool_artefacts_ignored": kani_artefacts,
            "known_findings_hit": [k.get("_line") for (_, k) in known_hits],
            "assumption_scan": scan_assumptions(results),
            "stability": {u: r["stability"] for u, r in results.items()},
            "explanation": cfg.get("explanation", ""),
        },
        "assumptions": cfg["assumptions"],
        "wall_s": round(wall, 2),
        "violations": len(violations),
    }
    if os.path.realpath(repo) == "/repo" and prop != "ALL":
        os.makedirs(os.path.join(here, "evidence"), exist_ok=True)
        json.dump(ev, open(os.path.join(here, "evidence", prop + ".json"), "w"), indent=1)
    else:
        # development runs against a scratch copy never touch the committed evidence
        json.dump(ev, open(os.path.join(tmp, prop + ".evidence.json"), "w"), indent=1)
    # thorough tier: teeth test -- the seeded faults recorded for this property (seeded/<id>/) that the check is
    # known to catch must still be reported when applied to a scratch copy of the current tree
    if tier == "thorough" and not violations and os.path.realpath(repo) == "/repo" and not os.environ.get("VERIF_NO_TEETH"):
        teeth = teeth_test(here, repo, prop, tmp)
        ev["coverage"]["teeth_test"] = teeth
        lost = [t for t in teeth if t["expected"] == "VIOLATION" and t["applied"] and t["rc"] == 0]
        if os.path.realpath(repo) == "/repo":
            json.dump(ev, open(os.path.join(here, "evidence", prop + ".json"), "w"), indent=1)
        if lost:
            raise Undecided("teeth test: seeded fault(s) %s are no longer reported by this check (machinery regression)" % [t["seed"] for t in lost])
    if violations:
        print("FAIL property=%s : %d/%d obligations discharged, %d violation(s), %.1fs" % (prop, n_disch, n_total, len(violations), wall))
        return 1
    print("OK property=%s : %d/%d obligations discharged%s, vacuity guard %d exits reachable, %.1fs" % (
        prop, n_disch, n_total, (" (%d known finding(s))" % len(known_hits)) if known_hits else "", vac_total - len(vac_unreached), wall))
    return 0


def teeth_test(here, repo, prop, tmp):
    out = []
    sd = os.path.join(here, "seeded")
    for d in sorted(os.listdir(sd)) if os.path.isdir(sd) else []:
        mp = os.path.join(sd, d, "meta.json")
        if not os.path.exists(mp):
            continue
        meta = json.load(open(mp))
        if meta.get("property") != prop:
            continue
        scratch = os.path.join(tmp, "teeth_" + d)
        os.makedirs(scratch)
        shutil.copytree(os.path.join(repo, "src"), os.path.join(scratch, "src"))
        for f in ("Cargo.toml", "Cargo.lock", "README.md"):
            if os.path.exists(os.path.join(repo, f)):
                shutil.copy(os.path.join(repo, f), scratch)
        if os.path.exists(os.path.join(repo, "benches")):
            shutil.copytree(os.path.join(repo, "benches"), os.path.join(scratch, "benches"))
        subprocess.run(["git", "init", "-q", "."], cwd=scratch)
        a = subprocess.run(["git", "apply", "--whitespace=nowarn", os.path.join(sd, d, "patch.diff")], cwd=scratch, stdout=subprocess.PIPE, stderr=subprocess.PIPE)
        rec = {"seed": d, "expected": meta.get("check_result", {}).get("verdict", "?").split(" ")[0], "applied": a.returncode == 0}
        if a.returncode == 0:
            env = dict(os.environ, VERIF_DEV_NOVAC="1", VERIF_TIER="quick")
            r = subprocess.run([os.path.join(here, "check"), prop, "--repo", scratch, "--tier", "quick"], stdout=subprocess.PIPE, stderr=subprocess.STDOUT, text=True, env=env)
            rec["rc"] = r.returncode
            rec["first_line"] = (r.stdout.strip().splitlines() or [""])[0][:200]
        out.append(rec)
        shutil.rmtree(scratch, ignore_errors=True)
    return out


def scan_assumptions(results):
    """mechanical scan of the woven (non-prelude) text for assume/admit/external_body"""
    out = {}
    for u, r in results.items():
        txt = r["rs_text"]
        k = txt.find("woven from the working tree (kweave)")
        woven = txt[k:] if k >= 0 else txt
        pre = txt[:k] if k >= 0 else ""
        # the real code's own comments mention "assume init": scan code only (line comments removed)
        woven = "\n".join(l.split("//")[0] for l in woven.splitlines())
        out[u] = {
            "woven_text": {"assume(": len(re.findall(r"\bassume\s*\(", woven)), "admit(": len(re.findall(r"\badmit\s*\(", woven)),
                           "external_body": len(re.findall(r"\bexternal_body\b", woven)), "assume_specification": len(re.findall(r"\bassume_specification\b", woven)),
                           "axiom_ calls (explicit, listed assumptions R5/R2/A2)": len(re.findall(r"\baxiom_\w+\s*\(", woven))},
            "trusted_prelude": {w: len(re.findall(r"\b%s\b" % re.escape(w), pre)) for w in ("assume", "admit", "external_body", "assume_specification", "uninterp")},
        }
    return out
