"""Per-property configuration of the driver: which woven units a property needs, what is trusted."""

UNITS = {
    "u1": {"kc": ["u1.kc"], "desc": "internal.rs + lib.rs + future.rs against the opaque-signal prelude"},
    "u2": {"kc": ["u2.kc"], "desc": "mutex.rs + backoff.rs + pointer-free part of signal.rs against atomic stand-ins"},
    "glue": {"static": "glue_u1_u2.rs", "desc": "lemmas: what U2 proves about signal.rs implies what U1 assumes about it (given R2a)"},
}

# exits that are legitimately unreachable under the stated pre-conditions (vacuity guard exceptions)
VACUITY_ALLOWED = [
    # the std-mutex configuration is compiled out (A5): the statement after `return internal.lock();`
    ("::acquire_internal", '#[cfg(feature = "std-mutex")]'),
    ("::try_acquire_internal", '#[cfg(feature = "std-mutex")]'),
    # spin_cond: `for _ in 0..OS_YIELD` with `const OS_YIELD: usize = 0` -- the body (one `return;`) is dead code in the source
    ("::spin_cond", "return;", 1),
]

R1 = "R1 mutual exclusion of channel critical sections and visibility between them (object of C17; the spin lock's exclusion under the C11 memory model is assumed, U2 proves only the sequential contracts of RawMutexLock)"
R2 = "R2 signal protocol across threads: a waiter popped by exactly one peer is completed by that peer's send/recv/terminate and its owner observes the outcome and payload (Signal::wait / Signal::wake are trusted; release/acquire pairing not modelled)"
R3 = "R3 lifetime/pinning: a signal's memory is valid until its owner observed a final state or removed it under the lock; futures are not moved while registered (Pin dropped by rewrite X3)"
R4 = "R4 wake dispatches on the waiter's own KanalWaker kind: PROVED sequentially in U2 (O-wake.dispatch: an async waiter's waker is invoked, a sync waiter is unparked unless the peer's exchange found it still spinning); that the unpark / wake actually reaches a parked thread / task is liveness and assumed"
A1 = "A1 usize is 64 bit (global size_of usize == 8)"
A2 = "A2 collection lengths < 2^62 (only for overflow-freedom of drain_into's capacity arithmetic)"
A3 = "A3 fewer than 2^32-1 live handles per side (count += 1 does not overflow)"
A4 = "A4 Instant::now() + duration is representable (checked_add(..).unwrap() does not panic)"
A5 = "A5 default features (async on, std-mutex off), release semantics (debug_assert! / cfg(debug_assertions) code compiled out: verus -C debug-assertions=off); atomics sequentially consistent, machine integers exact with overflow obligations"

T_COMMON = [
    "T1 Mutex::lock/try_lock/from and MutexGuard Deref/DerefMut/drop (prelude_u1.rs): exclusive access, wf on acquisition, try_lock never waits",
    "T11 vstd's own specifications of VecDeque, Vec, Arc, Option, Result, MaybeUninit",
    "kweave (the extractor): trusted to copy text by span; checked on every run by the byte-level fidelity audit; exec rewrites X1-X14 are listed in this file under exec_rewrites",
    "Verus 0.2026.09.13 and Z3 as shipped",
]
T_SIGNAL = [
    "T2 SignalTerminator::send (assumed: logs the hand-off, requires a terminator popped by this call with the receiver role, unused)",
    "T3 SignalTerminator::recv (assumed: returns payload(self), requires a terminator popped by this call with the sender role, unused)",
    "T4 SignalTerminator::terminate (assumed: logs the termination)",
    "T5 Signal::wait: in U1 assumed to return delivered(self); its sequential contract (returns only after observing a final state, with acquire semantics, on the fast path, the yield phase, the failed-CAS path and the park loop) is PROVED on the real text in U2 and linked by the glue lemma; what stays assumed is the concurrent half (R2a/R2b: final states are final, only the waiter stores LOCKED_STARVATION) and park/unpark liveness",
    "T6 Signal::wake / Signal::send / recv / terminate: their sequential contracts (the payload is moved before the final state is published; the final state is published by a store or compare_exchange with ordering >= Release; terminate publishes TERMINATED) are PROVED on the real text in U2 (rewrite X11: `this: *const Self` read as `&Self`); value-level behaviour by Kani K2; the concurrent half is assumed (R2, R2b: a failed LOCKED->final exchange means the waiter has published its thread handle)",
    "T7 KanalPtr constructors/read/write (assumed payload chain in U1; proved per size class by Kani group K1 where claimed)",
    "T8 Signal::assume_init / load_and_drop (in U1 assumed: require delivered resp. local value present; in U2 their bodies are proved to read through the signal's own KanalPtr)",
]
T_TIME = ["T9 Instant::now/checked_add/comparison (assumed clock token `reached`)", "T10 thread::park/yield/sleep, available_parallelism, spin_loop return and do not touch channel state"]


T_U2 = [
    "U2 stand-ins (prelude_u2.rs): AtomicBool / AtomicU8 / AtomicU32 / AtomicUsize, fence, Ordering with sequential one-directional contracts (a winning compare_exchange(false->true, >=Acquire) lets the caller conclude `acquired`; a load lets it conclude `observed(v)`); atomics are treated as sequentially consistent",
    "U2 trusted leaves: get_parallelism, random_u7, random_u32 (function-local statics), sleep / spin_hint / yield_now_std (std::thread), Instant::now and comparison (clock token), Waker::clone / will_wake, KanalPtr (opaque), UnsafeCell/Thread stand-ins",
    "glue between U1 and U2 (assumed, R2a): the signal states UNLOCKED and TERMINATED are final, so `observed(UNLOCKED)` (U2) is `delivered` (U1) and `observed(TERMINATED)` is `seen_terminated` / not delivered; L-MUTEX: `acquired` = holding the channel lock",
    "not woven in U2: get_terminator / From<*const Signal> / SignalTerminator::eq (pointer casts; identity checked by Kani K2.terminator-identity on the real code); backoff::randomize/random_u32 (dead code). SignalTerminator::{send,send_copy,recv,terminate} and Signal::{send_copy,assume_init,load_and_drop} ARE woven (rewrite X11: the raw pointer field is the stand-in SigPtr, `self.0` is read as `self.0.as_ref()`): sequential contracts proved, aliveness of the pointee (R3) and the cross-thread half (R2) assumed",
]

def mk(units, trusted, assumptions, explanation):
    return {"units": units, "trusted": T_COMMON + trusted, "assumptions": assumptions, "explanation": explanation}


PROPS = {
    "C01": mk(["u1", "u2", "glue"], T_SIGNAL + T_U2, [R1, R2, R3, A1, A5], "conservation + ownership contracts on every critical section; effect log of hand-offs"),
    "C02": mk(["u1"], T_SIGNAL, [R1, R2, R3, A1, A5], "every send-type section appends at the tail of the logical order, every receive-type section takes its head"),
    "C03": mk(["u1", "u2", "glue"], T_SIGNAL + T_U2, [R1, R2, R3, A1, A5], "every entry point ensures one atomic reference step per critical section; lock invariant at every guard death"),
    "C04": mk(["u1", "u2", "glue"], T_SIGNAL + T_U2 + ["Kani 0.68 / CBMC 6.11 as shipped; one ignored CBMC check (zero-byte memset of core::mem::zeroed::<ZST>) listed under kani_tool_artefacts_ignored"],
              [R1, R2, R3, A1, A5, "universal quantifier over the message type T is covered by size/alignment classes (ZST, over-aligned ZST, 1,2,3,4,8 bytes, padded, 16, 24 bytes, padded large), each over its full value domain",
               "memory ordering is decided only at the level of the annotations: U2 proves on the real text that the payload is moved before the final state is published, that every publishing store / compare_exchange has ordering >= Release, that the waiter is woken only after the publication, and that every path on which a waiter returns a final state has executed an acquire load or fence after observing it; that these annotations yield the happens-before edge is the C11 memory model and is assumed (Verus treats atomics as SC, Kani has no threads)"],
              "Kani: KanalPtr and Signal transport every value bit-for-bit per size class (complete per instance); Verus: a receiver reads a slot only with evidence of delivery and with the size dispatch consistent"),
    "C05": mk(["u1"], T_SIGNAL, [R1, R2, R3, A1, A5], "MaybeUninit typestate + scope-exit obligations on every lent slot + Option post-conditions"),
    "C08": mk(["u1", "u2", "glue"], T_SIGNAL + T_U2, [R1, R2, R3, A1, A2, A5], "len <= capacity is part of the lock invariant; admission post-conditions"),
    "C09": mk(["u1", "u2"], T_SIGNAL + T_U2, [R1, R2, R3, R4, A1, A5], "all contracts are proved for all four handle types and never mention the flavour of a waiter; conversions are transmutes (shape check)"),
    "C10": mk(["u1", "u2", "glue"], T_SIGNAL + T_U2, [R1, R2, R3, A1, A5], "close contract; closed is absorbing on every entry point"),
    "C11": mk(["u1", "u2", "glue"], T_SIGNAL + T_U2, [R1, R2, R3, A1, A5], "Drop contracts; drain before SendClosed"),
    "C12": mk(["u1"], [], [R1, A1, A3, A5], "+-1 contracts on every clone/drop/convert; conversions are transmutes (shape check)"),
    "C13": mk(["u1", "u2", "glue"], T_SIGNAL + T_TIME + T_U2, [R1, R2, R3, A1, A4, A5], "timed operations: two critical sections, timeout only after a successful cancel under the lock, not before the deadline (clock token)"),
    "C14": mk(["u1", "u2"], T_SIGNAL + T_U2, [R1, R2, A1, A5], "blocking-effect tokens in requires; total correctness of the non-blocking entry points"),
    "C15": mk(["u1", "u2", "glue"], T_SIGNAL + T_U2, [R1, R2, R3, A1, A5], "Drop contracts of both futures: cancel under the lock, else wait for the peer, value disposed exactly once"),
    "C16": mk(["u1", "u2", "glue"], T_SIGNAL + T_U2, [R1, R2, R3, A1, A5], "poll contracts: Pending implies current waker registered, waker replaced only under the lock, re-arm only with a fresh signal, value only on evidence of delivery, sticky stream end"),
    "C17": mk(["u2", "u1"], T_U2 + ["T1 Mutex::lock/try_lock (lock_api wrapper over RawMutexLock) in U1: try_lock takes no blocking token"], [A1, A5, "mutual exclusion under the C11 memory model is NOT proved: the contracts are sequential; L-MUTEX derives exclusion over the contracts assuming atomic CAS and sequential consistency", "progress (a blocking acquisition succeeds once the holder leaves) is excluded (liveness)"],
              "contracts on try_lock / lock / lock_no_inline / unlock / spin_cond on the real text + interleaving lemma over those contracts (reduced claim)"),
    "C18": mk(["u1", "u2", "glue"], T_SIGNAL + T_TIME + T_U2, [R1, R2, R3, A1, A2, A3, A4, A5], "each entry point equals a deterministic reference function; panic- and overflow-freedom"),
    "C19": mk(["u1"], T_SIGNAL, [R1, R2, R3, A1, A2, A5], "full functional post-condition of drain_into including both loops"),
}
