"""Kani harness groups K1/K2/K4 (DESIGN.md §3.6): run on a scratch copy of the unmodified crate."""
import os, re, shutil, subprocess, time, json

# harness-name prefix -> (obligation id, properties, description)
GROUPS = [
    ("k1_drop_", "K1.ownership", ["C04", "C05", "C01"], "KanalPtr write/read hand over ownership: the writer does not drop, the reader gets exactly one instance"),
    ("k1_", "K1.roundtrip", ["C04"], "KanalPtr transports every value of the type bit-for-bit on the lend/read, write-into-slot, copy, owned and unchecked paths"),
    ("k2_last_waker_wins", "K2.last-waker", ["C04", "C16"], "the waker registered last is the one invoked, exactly once"),
    ("k2_terminator_identity", "K2.terminator-identity", ["C04", "C13", "C15"], "SignalTerminator == Signal holds exactly for the signal the terminator was taken from (support for the trusted `eq` used by cancel_* and *_signal_exists)"),
    ("k2_", "K2.signal-protocol", ["C04"], "sequential signal protocol: send/recv/terminate complete the waiter with the right outcome and payload"),
    ("k4_", "K4.layout", ["C09", "C12"], "sync and async handle types are layout-identical wrappers of the shared state"),
]
# bounded stand-ins (thorough tier only): never counted as proved
BOUNDED = [
    ("k3_", "K3.cancel-unrewritten", ["C02", "C13", "C15"], "cancel_*_signal on the UNREWRITTEN text (cross-check of exec rewrite X1): same post-condition as the Verus contract", "wait list length <= 3, unwind 5"),
]
SPURIOUS = [
    # CBMC checks the destination of a zero-byte memset (core::mem::zeroed::<ZST>() in KanalPtr::read): tool artefact
    ("memset destination region writeable", "write_bytes::<"),
]


def group_of(h):
    leaf = h.split("::")
    name = leaf[-1] if not leaf[-2].startswith("k1_") or leaf[-1].startswith("k") else leaf[-2]
    # module-style harnesses: verif_kani::k1_u32::lend_read -> k1_u32
    for seg in leaf:
        for (pfx, oid, props, desc) in GROUPS:
            if seg.startswith(pfx):
                return (pfx, oid, props, desc)
    return None


def wanted(prop):
    return [g for g in GROUPS if prop in g[2] or prop == "ALL"]


def prepare(repo, tmp):
    d = os.path.join(tmp, "kani_crate")
    os.makedirs(d, exist_ok=True)
    for f in ("src", "benches"):
        if os.path.exists(os.path.join(repo, f)):
            shutil.copytree(os.path.join(repo, f), os.path.join(d, f), dirs_exist_ok=True)
    for f in ("Cargo.toml", "Cargo.lock", "README.md"):
        p = os.path.join(repo, f)
        if not os.path.exists(p) and repo != "/repo":
            p = os.path.join("/repo", f)
        if os.path.exists(p):
            shutil.copy(p, os.path.join(d, f))
    if not os.path.exists(os.path.join(d, "benches")):
        shutil.copytree("/repo/benches", os.path.join(d, "benches"))
    here = os.path.dirname(os.path.dirname(os.path.abspath(__file__)))
    shutil.copy(os.path.join(here, "kani", "harness.rs"), os.path.join(d, "src", "verif_kani.rs"))
    with open(os.path.join(d, "src", "lib.rs"), "a") as f:
        f.write("\n#[cfg(kani)]\nmod verif_kani;\n")
    return d


def sh(cmd, cwd):
    env = dict(os.environ, CARGO_NET_OFFLINE="true", CARGO_TARGET_DIR=os.path.join(cwd, "target"))
    return subprocess.run(cmd, cwd=cwd, env=env, stdout=subprocess.PIPE, stderr=subprocess.STDOUT, text=True)


def parse_terse(out):
    """returns harness -> {"ok": bool, "failed_checks": [(desc, loc)], "checks": int, "time": float}"""
    cur = {}
    res = {}
    thread = None
    block = []

    def flush(th, lines):
        if th is None or not lines:
            return
        h = cur.get(th)
        txt = "\n".join(lines)
        if "VERIFICATION:-" not in txt or h is None:
            return
        ok = "VERIFICATION:- SUCCESSFUL" in txt
        m = re.search(r"\*\* (\d+) of (\d+) failed", txt)
        failed = []
        ls = lines
        for i, l in enumerate(ls):
            if l.startswith("Failed Checks:"):
                desc = l[len("Failed Checks:"):].strip()
                loc = ls[i + 1].strip() if i + 1 < len(ls) and ls[i + 1].strip().startswith("File:") else ""
                failed.append((desc, loc))
        t = re.search(r"Verification Time: ([0-9.]+)s", txt)
        res[h] = {"ok": ok, "failed_checks": failed, "checks": int(m.group(2)) if m else 0, "time": float(t.group(1)) if t else 0.0}

    for line in out.splitlines():
        m = re.match(r"^Thread (\d+): ?(.*)$", line)
        if m:
            flush(thread, block)
            thread = m.group(1)
            block = []
            rest = m.group(2)
            mm = re.match(r"Checking harness (\S+?)\.\.\.", rest)
            if mm:
                cur[thread] = mm.group(1)
            continue
        if line.startswith("Manual Harness Summary") or line.startswith("Complete -"):
            flush(thread, block)
            thread, block = None, []
            continue
        block.append(line)
    flush(thread, block)
    summary_failed = re.findall(r"Verification failed for - (\S+)", out)
    total = re.search(r"Complete - (\d+) successfully verified harnesses, (\d+) failures, (\d+) total", out)
    return res, summary_failed, (tuple(int(x) for x in total.groups()) if total else None)


def is_spurious(desc, loc):
    return any(d in desc and f in loc for (d, f) in SPURIOUS)


def playback(crate, harness):
    """get the concrete playback test for a failing harness and run it natively against the real crate"""
    leaf = harness.split("verif_kani::", 1)[-1]
    r = sh(["cargo", "kani", "--harness", leaf, "-Z", "concrete-playback", "--concrete-playback=print"], crate)
    m = re.search(r"```\n(.*?)```", r.stdout, re.S)
    if not m:
        return None, False, r.stdout[-1500:]
    test = m.group(1)
    name = re.search(r"fn (kani_concrete_playback_\w+)", test)
    # the generated test goes into the module of the harness
    src = os.path.join(crate, "src", "verif_kani.rs")
    txt = open(src).read()
    open(src, "w").write(txt + "\n" + test + "\n")
    r2 = sh(["cargo", "kani", "playback", "-Z", "concrete-playback", "--lib", "--", name.group(1) if name else "kani_concrete_playback"], crate)
    reproduced = "test result: FAILED" in r2.stdout and "panicked" in r2.stdout
    open(src, "w").write(txt)
    return m.group(1), reproduced, r2.stdout[-2500:]


def run(prop, tier, here, repo, tmp, seed):
    groups = wanted(prop)
    bounded_groups = [g for g in BOUNDED if prop in g[2]] if tier == "thorough" else []
    if not groups and not bounded_groups:
        return None
    t0 = time.time()
    crate = prepare(repo, tmp)
    cmd = ["cargo", "kani", "-j", "16", "--output-format=terse"]
    for g in groups + bounded_groups:
        cmd += ["--harness", g[0]]
    r = sh(cmd, crate)
    res, summary_failed, total = parse_terse(r.stdout)
    if total is None:
        raise RuntimeError("cargo kani did not complete: " + r.stdout[-3000:])
    obs, failed, artefacts, bounded = [], [], [], []
    for h, info in sorted(res.items()):
        bg = [b for b in BOUNDED if any(seg.startswith(b[0]) for seg in h.split("::"))]
        if bg:
            b = bg[0]
            real = [(d, l) for (d, l) in info["failed_checks"] if not is_spurious(d, l)]
            bounded.append({"harness": h, "obligation": b[1], "bound": b[4], "clause": b[3], "ok": not real, "cbmc_checks": info["checks"], "time_s": info["time"],
                            "label": "bounded(%s) -- not counted as proved" % b[4]})
            if real and prop in b[2]:
                test, reproduced, log = playback(crate, h)
                failed.append({"kind": "kani-bounded", "id": b[1], "props": b[2], "func": h, "text": b[3], "exit_text": real[0][0], "src": None,
                               "message": real[0][0], "rendered": "failed checks: %s\n\nnative playback %s:\n%s" % (real, "REPRODUCED" if reproduced else "did not reproduce", log),
                               "counterexample": test if reproduced else None, "ob_idx": None, "unit": "kani"})
            continue
        g = group_of(h)
        if g is None or (prop not in g[2] and prop != "ALL"):
            continue
        real = [(d, l) for (d, l) in info["failed_checks"] if not is_spurious(d, l)]
        spur = [(d, l) for (d, l) in info["failed_checks"] if is_spurious(d, l)]
        if spur:
            artefacts.append({"harness": h, "ignored_check": spur[0][0], "at": spur[0][1]})
        obs.append({"obligation": g[1], "kind": "kani-harness", "function": h, "clause": g[3], "unit": "kani", "backend": "kani 0.68 / cbmc 6.11",
                    "cbmc_checks": info["checks"], "time_s": info["time"], "ok": not real})
        if real:
            test, reproduced, log = playback(crate, h)
            failed.append({"kind": "kani-harness", "id": g[1], "props": g[2], "func": h, "text": g[3],
                           "exit_text": real[0][0], "src": None, "message": real[0][0],
                           "rendered": "failed checks: %s\n\nnative playback (cargo kani playback) %s:\n%s" % (real, "REPRODUCED the failure on the real crate" if reproduced else "did not reproduce", log),
                           "counterexample": test if reproduced else None, "ob_idx": None, "unit": "kani",
                           "note": "Kani concrete playback test; native run %s" % ("reproduced" if reproduced else "not reproduced")})
    missing = [h for h in summary_failed if h not in res]
    if missing:
        raise RuntimeError("could not parse Kani output for harnesses: %s" % missing)
    if not obs and groups:
        raise RuntimeError("no Kani harness ran for %s (zero obligations)" % prop)
    wall = time.time() - t0
    return obs, failed, bounded, ["(cd <scratch copy of /repo + src/verif_kani.rs> && %s)" % " ".join(cmd)], wall, artefacts
