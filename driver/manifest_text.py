"""Human-written texts for MANIFEST.json (level claimed, notes, technique) per property."""

RELY = "Relies on R1 (mutual exclusion of critical sections), R2 (signal protocol across threads), R3 (lifetime/pinning); trusted leaves T1-T11 of DESIGN.md §3.4; listed in every evidence file."
TECH = "contract-based deductive verification: Verus (SMT) on real function text extracted mechanically each run by kweave"


def t(level, note=RELY, design_ref="DESIGN.md §6", technique=TECH, kani=False):
    return {"level": level, "note": note, "design_ref": design_ref, "technique": technique, "kani": kani}


TEXT = {
    "C01": t("Unbounded proof (all states satisfying the lock invariant, all T, all capacities) that every critical section of every entry point conserves the logical content: a value enters by exactly one of buffer push / hand-off to the oldest waiting receiver / registration of the sender, and leaves by exactly one pop; only waiters popped under the lock by this call, with the right role, are completed, each once, none forgotten. The cross-thread hand-off itself is assumed (R2).", design_ref="DESIGN.md §6 C01"),
    "C02": t("Unbounded proof that every send-type section appends at the tail of the logical order (buffer ++ blocked senders) or hands to the oldest waiting receiver when the order is empty, every receive-type section removes the head, refill appends the oldest blocked sender's value at the buffer tail, cancel removes one entry and keeps the order of the rest.", design_ref="DESIGN.md §6 C02"),
    "C03": t("Unbounded proof that each entry point performs, per critical section, exactly one atomic step of a deterministic reference channel and re-establishes the lock invariant at every point where a guard dies; linearizability then follows from lock-based critical sections (R1), an argument over the contracts.", design_ref="DESIGN.md §6 C03"),
    "C05": t("Unbounded proof over every path of every entry point that a value given to the channel is disposed exactly once: MaybeUninit typestate makes a second drop a failed pre-condition, a scope-exit obligation on every lent sender slot (delivered => untouched, not delivered => dropped once or handed back), Option variants: None iff success, futures: exactly one of read / drop / delivered per completed operation. Destruction of buffered values by VecDeque's own Drop is trusted to the language.", design_ref="DESIGN.md §6 C05"),
    "C08": t("Unbounded proof: queue.len() <= capacity is part of the lock invariant re-proved at every release; try_send* is refused iff the buffer is full and no receiver waits; success only by buffer place, hand-off or delivery; unbounded channels never refuse.", design_ref="DESIGN.md §6 C08"),
    "C09": t("All contracts of C01-C05, C08, C10-C16, C18, C19 are proved for each of the four handle types (the three shared macros are expanded into every impl) and never mention the flavour of a waiter; clone_sync/clone_async have the Clone contract on the same Arc; to_*/as_* are checked to be plain transmutes (AST shape). wake's dispatch on the waiter's kind is assumed (R4).", note=RELY + " R4 (wake dispatch).", design_ref="DESIGN.md §6 C09"),
    "C10": t("Unbounded proof of the close contract (first close empties everything and terminates every waiter once, later ones fail and change nothing) and of 'closed is absorbing' on every entry point.", design_ref="DESIGN.md §6 C10"),
    "C11": t("Unbounded proof of the Drop contracts (terminate waiters exactly on the 1->0 transition while the other side lives) and of drain-before-SendClosed / ReceiveClosed-without-handing-over on every entry point.", design_ref="DESIGN.md §6 C11"),
    "C12": t("Unbounded proof of +1 / -1 / unchanged contracts on every clone, drop, constructor and close; conversions are checked to be plain transmutes (AST shape).", note="Relies on R1 and A3 (no counter overflow); T1, T11.", design_ref="DESIGN.md §6 C12"),
    "C13": t("Unbounded proof that each timed operation ends in exactly one of success / timeout / closed with the value moved exactly once or not at all: Timeout only after a successful cancel of the caller's own entry under the lock (nothing left behind, order of the others kept) or before registration, never before the deadline (clock token), failed cancel => wait for the peer. The liveness half (timeout IS reported once the deadline passed) is excluded.", note=RELY + " T9 clock token, A4.", design_ref="DESIGN.md §6 C13"),
    "C14": t("Proof that non-blocking entry points cannot (transitively) call anything that waits for a peer, and the realtime variants nothing that waits for the lock (uninterpreted effect tokens in requires), that they terminate (decreases on every loop), never register, and report success exactly when a value moved.", design_ref="DESIGN.md §6 C14"),
    "C15": t("Unbounded proof of the Drop contracts of both futures: Done/Zero drop cleanly, Waiting cancels under the lock (own entry removed, others keep order) or, if a peer owns the signal, waits for it and then keeps / drops the value exactly once; after the drop the wait list does not hold the future. That the peer's in-flight access has finished when the wait returns is assumed (R2/R3).", design_ref="DESIGN.md §6 C15"),
    "C16": t("Unbounded proof of the polling contract: Pending implies the waker of this poll is registered; a possibly published signal's waker is replaced only while the lock is held and the signal was seen in the list; a future (re)starts only with a fresh signal; in Waiting completion is decided from the signal only and a value is produced only on evidence of delivery; polling a finished future is the documented panic; the stream's end is sticky.", design_ref="DESIGN.md §6 C16"),
    "C18": t("Unbounded proof that each entry point returns exactly the result of a deterministic reference function of the abstract state and leaves the reference post-state, for all states; plus panic-, overflow- and index-safety under the documented pre-conditions.", design_ref="DESIGN.md §6 C18"),
    "C19": t("Unbounded proof of the full functional post-condition of drain_into including both loops: vec == old(vec) ++ buffer ++ payloads of all blocked senders (oldest first), count == number appended, every sender taken is released with success, one critical section, no blocking call, both loops terminate; closed => fails and takes nothing.", design_ref="DESIGN.md §6 C19"),
}

NOT_APPLICABLE = {
    "C06": "liveness over schedules is not a pre/post-condition of any function; its mechanism (park/unpark, LOCKED->LOCKED_STARVATION race in Signal::wait/wake) is unreadable for Verus (raw pointers) and Kani (no threads, ICE on thread::park). Safety preconditions are credited under C10, C11, C13, C16.",
    "C07": "data-race / use-after-return freedom across threads needs happens-before reasoning over raw pointers; Verus would need permission tokens threaded through signal.rs (a rewrite = a model), Kani has no threads.",
    "C20": "auto-trait (Send/Sync) derivation is decided by the Rust type checker, not expressible as a contract; a compile-fail test would be a different technique.",
    "C04": "under construction in this round (Kani K1/K2 groups + Verus evidence-before-read obligations)",
    "C17": "under construction in this round",
}

NOTES = ("All checks are ./check <id>: weave the current /repo/src with the contracts in /verif/contracts, run Verus on the woven unit(s) "
         "(normal pass + vacuity pass), classify diagnostics into named obligations. Exit 2 = undecided (tool limit / lost anchor), never an alarm. "
         "known_findings.txt lists genuine defects found (fixed or recorded).")
