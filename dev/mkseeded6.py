#!/usr/bin/env python3
"""dev helper: builds /verif/seeded/<id>/ from /tmp/seedout (patch, demo, meta.json) and records which check catches it."""
import os, json, subprocess, shutil, re, sys
OUT = "/verif/seeded"
needs = {}
import itertools
# round 4 (/tmp/seedout6/<prop>/{a,b}) gets the next two free letters of its property
R4 = {"C01": "gh", "C03": "ef", "C04": "gh", "C05": "gh", "C10": "gh", "C11": "gh", "C13": "gh", "C15": "gh", "C16": "gh"}
items = [("/tmp/seedout6", d, v) for d in sorted(os.listdir("/tmp/seedout6")) for v in ("a", "b")]
only = sys.argv[1:] 
items = [it for it in items if not only or it[1] in only]
for (base, d, v) in items:
    if True:
        src = "%s/%s/%s" % (base, d, v)
        if not os.path.exists(src + "/patch.diff"):
            continue
        sid = "%s%s" % (d, R4[d][0 if v == "a" else 1])
        dst = os.path.join(OUT, sid)
        os.makedirs(dst, exist_ok=True)
        shutil.copy(src + "/patch.diff", dst + "/patch.diff")
        shutil.copy(src + "/demo.rs", dst + "/demo.rs")
        if os.path.exists(src + "/notes.md"):
            shutil.copy(src + "/notes.md", dst + "/notes.md")
        conf = {}
        cj = "/tmp/seedconfirm6_results/%s_%s.json" % (d, v)
        if os.path.exists(cj):
            conf = json.load(open(cj))
        r = subprocess.run(["/verif/dev/seedtest.sh", dst + "/patch.diff", d], stdout=subprocess.PIPE, stderr=subprocess.STDOUT, text=True)
        lines = r.stdout.strip().splitlines()
        verdict = "MISSED (check exits 0)"
        if any(l.startswith("FAIL") for l in lines):
            verdict = "VIOLATION"
        elif any(l.startswith("UNDECIDED") for l in lines):
            verdict = "UNDECIDED (exit 2)"
        obl = [l.strip() for l in lines if l.strip().startswith("obligation")]
        notes = open(src + "/notes.md").read() if os.path.exists(src + "/notes.md") else ""
        meta = {
            "id": sid, "property": d,
            "origin": "written by an independent sub-agent that saw only the property text and a scratch worktree of /repo (sixth round: told which ideas rounds 1-5 had used; prompt: dev/prompts/seed_round6.tmpl)",
            "what_it_needs_to_manifest": (re.findall(r"(?im)^.*(?:needs?|trigger|manifest)[^\n]*$", notes) or [""])[0][:400],
            "confirmed_by_me": {
                "scratch_worktree": "git -C /repo worktree add --detach /tmp/seedconfirm HEAD (removed afterwards)",
                "patch_applies": conf.get("apply") == "ok",
                "existing_suite_passes_with_change": conf.get("suite_rc_with_change") == "0",
                "demo_fails_with_change": conf.get("demo_rc_with_change") not in ("0", "", None),
                "demo_passes_without_change": conf.get("demo_rc_without_change") == "0",
                "commands": ["cargo test --offline --no-fail-fast --test sync_test --test async_test   (with the change)",
                             "cargo test --offline --test seed_demo_<id>   (with and without the change)"],
            },
            "check_result": {"cmd": "./check %s --repo <scratch copy of /repo/src with the patch>" % d, "verdict": verdict, "failed_obligations": obl[:8],
                             "summary": [l for l in lines if l.startswith(("OK", "FAIL", "UNDECIDED"))][:2]},
        }
        if d == "C09" and v == "b":
            meta["note"] = "the sub-agent's patch was written before the D3/D5 fix changed the surrounding lines; ported by hand (same one-character change) and re-confirmed: suite 41+42 pass, demo 2 failed with / 2 passed without"
        json.dump(meta, open(dst + "/meta.json", "w"), indent=1)
        print(sid, verdict, flush=True)
