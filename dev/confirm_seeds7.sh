#!/bin/bash
# dev helper: confirm every seeded change under /tmp/seedout in a scratch worktree of /repo:
#   existing tests pass with the change; the demo fails with it and passes without it.
W=/tmp/seedconfirm
OUT=/tmp/seedconfirm7_results
mkdir -p $OUT
git -C /repo worktree remove --force $W 2>/dev/null
git -C /repo worktree add -q --detach $W HEAD || exit 1
cd $W
for d in /tmp/seed7/*/OUT/a; do
  id=$(basename $(dirname $(dirname $d))); v=$(basename $d); key=${id}_$v
  [ -f $OUT/$key.json ] && continue
  git checkout -q -- . ; git clean -fdq tests
  demo=tests/seed_demo_${key}.rs
  cp $d/demo.rs $demo
  res_apply=ok; res_suite=; res_demo_with=; res_demo_without=
  # without the change
  timeout 600 cargo test --offline --test seed_demo_${key} > $OUT/$key.without.log 2>&1; res_demo_without=$?
  if git apply --whitespace=nowarn $d/patch.diff 2>$OUT/$key.apply.log; then
    timeout 900 cargo test --offline --no-fail-fast --test sync_test --test async_test > $OUT/$key.suite.log 2>&1; res_suite=$?
    timeout 600 cargo test --offline --test seed_demo_${key} > $OUT/$key.with.log 2>&1; res_demo_with=$?
  else
    res_apply=failed
  fi
  printf '{"seed":"%s","apply":"%s","suite_rc_with_change":"%s","demo_rc_with_change":"%s","demo_rc_without_change":"%s"}\n' $key $res_apply "$res_suite" "$res_demo_with" "$res_demo_without" > $OUT/$key.json
  cat $OUT/$key.json
done
git checkout -q -- . ; git clean -fdq tests
cd /; git -C /repo worktree remove --force $W
