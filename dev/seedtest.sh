#!/bin/sh
# dev helper: seedtest.sh <patch.diff> <prop>...   -- runs checks against a scratch copy of /repo with the patch applied
P=$1; shift
D=$(mktemp -d /tmp/seedrun.XXXXXX)
cp -r /repo/src /repo/Cargo.toml /repo/Cargo.lock $D/ 2>/dev/null
(cd $D && git init -q . && git apply --whitespace=nowarn $P) || { echo "patch failed"; rm -rf $D; exit 3; }
for p in "$@"; do /verif/check $p --repo $D | grep -E '^(OK|FAIL|VIOLATION|UNDECIDED|KNOWN|  obligation)' ; done
rm -rf $D
