#!/usr/bin/env python3
"""dev helper: re-run the check of its property on every seeded fault and compare with the recorded verdict."""
import os, json, subprocess, sys
bad = 0
for d in sorted(os.listdir("/verif/seeded")):
    if sys.argv[1:] and d not in sys.argv[1:]:
        continue
    m = json.load(open("/verif/seeded/%s/meta.json" % d))
    env = dict(os.environ, VERIF_DEV_NOVAC="1")
    r = subprocess.run(["/verif/dev/seedtest.sh", "/verif/seeded/%s/patch.diff" % d, m["property"]], stdout=subprocess.PIPE, stderr=subprocess.STDOUT, text=True, env=env)
    got = "VIOLATION" if "FAIL property" in r.stdout else ("UNDECIDED" if "UNDECIDED" in r.stdout else "MISSED")
    exp = m["check_result"]["verdict"].split(" ")[0]
    flag = "" if got == exp else "   <<<<<< CHANGED (recorded %s)" % exp
    if flag:
        bad += 1
    print(d, got, flag, flush=True)
print("changed:", bad)
