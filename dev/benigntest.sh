#!/bin/sh
# dev helper: benigntest.sh <dir with N.diff>  -- every behaviour-preserving patch must leave every check at exit 0
for p in "$1"/*.diff; do
  D=$(mktemp -d /tmp/benignrun.XXXXXX)
  cp -r /repo/src /repo/Cargo.toml /repo/Cargo.lock /repo/README.md /repo/benches $D/ 2>/dev/null
  if (cd $D && git init -q . && git apply --whitespace=nowarn $p); then
    printf "%s: " $p
    /verif/check ALL --repo $D | grep -E '^(OK|FAIL|UNDECIDED|  obligation)' | head -4 | cut -c1-260 | tr '\n' ' '
    echo
  else
    echo "$p: patch failed"
  fi
  rm -rf $D
done
