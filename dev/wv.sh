#!/bin/sh
# dev helper: weave u1 and run verus
set -e
cd /verif
(cd weave && CARGO_NET_OFFLINE=true cargo build --release --offline 2>&1 | grep -E '^error' -A 10 || true)
./weave/target/release/kweave --repo /repo --kc contracts/u1.kc --out /tmp/kw/u1.rs --map /tmp/kw/u1.json "$@"
cd /tmp/kw && verus u1.rs --cfg 'feature="async"' -C debug-assertions=off --multiple-errors 20 --num-threads 16 2>&1 | grep -v '^\s*$'
