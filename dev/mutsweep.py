#!/usr/bin/env python3
"""dev helper: mechanical mutation sweep to find weak contracts.
usage: mutsweep.py <outfile> [workers] [file filter]
Every mutant = one small textual change in a function body of /repo/src. A mutant that still compiles is
run through `./check ALL --repo <scratch>`; survivors (exit 0) are candidates for weak contracts."""
import os, re, sys, subprocess, shutil, json, concurrent.futures, itertools, hashlib

FILES = ["internal.rs", "lib.rs", "future.rs", "mutex.rs", "signal.rs", "backoff.rs", "pointer.rs"]
OPS = [
    (r" == ", " != "), (r" != ", " == "), (r" < ", " <= "), (r" > ", " >= "), (r" <= ", " < "), (r" >= ", " > "),
    (r" && ", " || "), (r" \|\| ", " && "), (r"\+= 1", "-= 1"), (r"-= 1", "+= 1"),
    (r"\btrue\b", "false"), (r"\bfalse\b", "true"),
    (r"push_back", "push_front"), (r"pop_front", "pop_back"),
    (r"if !", "if "), (r"\bnext_recv\b", "next_send"), (r"\bnext_send\b", "next_recv"),
    (r"\bpush_recv\b", "push_send"), (r"\bpush_send\b", "push_recv"),
    (r"cancel_send_signal", "cancel_recv_signal"), (r"cancel_recv_signal", "cancel_send_signal"),
    (r"send_signal_exists", "recv_signal_exists"), (r"recv_signal_exists", "send_signal_exists"),
    (r"\brecv_count\b", "send_count"), (r"\bsend_count\b", "recv_count"),
    (r"SendError::Closed", "SendError::ReceiveClosed"), (r"SendError::ReceiveClosed", "SendError::Closed"),
    (r"ReceiveError::Closed", "ReceiveError::SendClosed"), (r"ReceiveError::SendClosed", "ReceiveError::Closed"),
    (r"SendErrorTimeout::Timeout", "SendErrorTimeout::Closed"), (r"ReceiveErrorTimeout::Timeout", "ReceiveErrorTimeout::Closed"),
    (r"FutureState::Done", "FutureState::Waiting"), (r"FutureState::Waiting", "FutureState::Done"), (r"FutureState::Zero", "FutureState::Waiting"),
    (r"Ordering::Acquire", "Ordering::Relaxed"), (r"Ordering::Release", "Ordering::Relaxed"),
    (r"== UNLOCKED", "== TERMINATED"), (r"v < LOCKED", "v <= LOCKED"),
    (r"Poll::Pending$", "Poll::Ready(Ok(()))"),
    (r"wake\(this, UNLOCKED\)", "wake(this, TERMINATED)"), (r"wake\(this, TERMINATED\)", "wake(this, UNLOCKED)"),
    (r"Signal::recv\(self\.0\)", "(*self.0).assume_init()"), (r"\.ptr\.read\(\)", ".ptr.read_twice__()"),
    (r"\.is_none\(\)", ".is_some()"), (r"usize::MAX", "0"), (r"> 0", ">= 0"), (r"== 0", "!= 0"), (r"forget\(d\);", ""),
]
DELETABLE = re.compile(r"^\s*(drop\(internal\);|internal\.terminate_signals\(\);|internal\.queue\.clear\(\);|this\.state = [^;]+;|self\.wait_list\.clear\(\);|"
                       r"unsafe \{ data\.assume_init_drop\(\) \}|this\.sig\.register_waker\(cx\.waker\(\)\);|fence\(Ordering::Acquire\);|"
                       r"internal\.push_(send|recv)\([^;]*\);|\*data = Some\([^;]*\);|self\.recv_blocking = (true|false);|internal\.(recv|send)_count = 0;|"
                       r"this\.sig = Signal::new_async\(\);|Signal::terminate\(self\.0\)|Self::wake\(this, [A-Z]+\);|\(\*this\)\.ptr\.write\(d\);|_ = self\.ptr\.read\(\);|thread\.unpark\(\);|w\.wake\(\);|self\.terminated = true;|unsafe \{\s*$)")


def mutants():
    out = []
    for f in FILES:
        lines = open("/repo/src/" + f).read().split("\n")
        in_test = False
        for i, l in enumerate(lines):
            t = l.strip()
            if not t or t.startswith("//") or t.startswith("#[") or t.startswith("use ") or t.startswith("#!") or "///" in l:
                continue
            for (pat, rep) in OPS:
                for m in re.finditer(pat, l):
                    nl = l[:m.start()] + re.sub(pat, rep, l[m.start():m.end()]) + l[m.end():]
                    if nl != l:
                        out.append((f, i, nl, "%s -> %s" % (pat, rep)))
            if DELETABLE.match(l) and not t.startswith("unsafe {") :
                out.append((f, i, "", "delete statement"))
    return out


def run(m, wid):
    f, i, nl, desc = m
    d = "/tmp/mutsweep/w%d" % wid
    if not os.path.exists(d + "/src"):
        os.makedirs(d, exist_ok=True)
        for x in ("src", "benches", "tests"):
            shutil.copytree("/repo/" + x, d + "/" + x, dirs_exist_ok=True)
        for x in ("Cargo.toml", "Cargo.lock", "README.md"):
            shutil.copy("/repo/" + x, d + "/" + x)
    for x in FILES:
        shutil.copy("/repo/src/" + x, d + "/src/" + x)
    p = d + "/src/" + f
    lines = open(p).read().split("\n")
    orig = lines[i]
    lines[i] = nl
    open(p, "w").write("\n".join(lines))
    env = dict(os.environ, CARGO_NET_OFFLINE="true", CARGO_TARGET_DIR=d + "/target")
    c = subprocess.run(["cargo", "check", "--offline", "--lib", "-q"], cwd=d, env=env, stdout=subprocess.PIPE, stderr=subprocess.STDOUT, text=True)
    rec = {"file": f, "line": i + 1, "orig": orig.strip(), "mut": nl.strip(), "op": desc}
    if c.returncode != 0:
        rec["verdict"] = "no-compile"
        return rec
    env2 = dict(os.environ, VERIF_DEV_NOVAC="1")
    if f in ("internal.rs", "lib.rs", "future.rs"):
        env2["VERIF_DEV_UNITS"] = "u1"; env2["VERIF_DEV_NOKANI"] = "1"
    elif f in ("mutex.rs", "backoff.rs"):
        env2["VERIF_DEV_UNITS"] = "u2"; env2["VERIF_DEV_NOKANI"] = "1"
    elif f == "pointer.rs":
        env2["VERIF_DEV_UNITS"] = "glue"
    else:
        env2["VERIF_DEV_UNITS"] = "u2"
    r = subprocess.run(["/verif/check", "ALL", "--repo", d], stdout=subprocess.PIPE, stderr=subprocess.STDOUT, text=True, env=env2)
    rec["verdict"] = {0: "SURVIVED", 1: "killed", 2: "undecided"}.get(r.returncode, "rc%d" % r.returncode)
    rec["detail"] = [l for l in r.stdout.splitlines() if l.startswith(("  obligation", "UNDECIDED"))][:3]
    return rec


if __name__ == "__main__":
    outf = sys.argv[1]
    workers = int(sys.argv[2]) if len(sys.argv) > 2 else 4
    filt = sys.argv[3] if len(sys.argv) > 3 else ""
    ms = [m for m in mutants() if filt in m[0]]
    print(len(ms), "mutants", flush=True)
    done = set()
    if os.path.exists(outf):
        for l in open(outf):
            j = json.loads(l)
            done.add((j["file"], j["line"], j["mut"]))
    ms = [m for m in ms if (m[0], m[1] + 1, m[2].strip()) not in done]
    print(len(ms), "to run", flush=True)
    import queue, threading
    q = queue.Queue()
    for m in ms:
        q.put(m)
    lock = threading.Lock()
    def worker(wid):
        while True:
            try:
                m = q.get_nowait()
            except queue.Empty:
                return
            rec = run(m, wid)
            with lock:
                open(outf, "a").write(json.dumps(rec) + "\n")
    ts = [threading.Thread(target=worker, args=(w,)) for w in range(workers)]
    for t in ts: t.start()
    for t in ts: t.join()
