#!/bin/sh
set -e
cd /verif
./weave/target/release/kweave --repo /repo --kc contracts/u2.kc --out /tmp/kw/u2.rs --map /tmp/kw/u2.json "$@"
cd /tmp/kw && verus u2.rs --cfg 'feature="async"' -C debug-assertions=off --multiple-errors 20 --num-threads 16 2>&1 | grep -v '^\s*$'
