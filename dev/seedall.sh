#!/bin/sh
# dev helper: run every seeded patch under /tmp/seedout against the check of its property
for d in /tmp/seedout/*/a /tmp/seedout/*/b; do
  id=$(basename $(dirname $d))
  case " $SKIP " in *" $id "*) continue;; esac
  printf "%s/%s: " $id $(basename $d)
  /verif/dev/seedtest.sh $d/patch.diff $id 2>&1 | grep -E '^(OK|FAIL|UNDEC|patch)' | cut -c1-230
done
