#!/usr/bin/env python3
"""dev helper: builds /verif/seeded/<id>/ from /tmp/seedout (patch, demo, meta.json) and records which check catches it."""
import os, json, subprocess, shutil, re, sys
OUT = "/verif/seeded"
needs = {}
import itertools
# round 4 (/tmp/seedout6/<prop>/{a,b}) gets the next two free letters of its property
R4 = {p: "g" for p in ("C02","C08","C12","C19","C14","C17")}
items = [("/tmp/seed7", d, "a") for d in sorted(os.listdir("/tmp/seed7")) if os.path.isdir("/tmp/seed7/"+d)]
only = sys.argv[1:] 
items = [it for it in items if not only or it[1] in only]
for (base, d, v) in items:
    if True:
        src = "%s/%s/OUT/%s" % (base, d, v)
        if not os.path.exists(src + "/patch.diff"):
            continue
        sid = "%s%s" % (d, R4[d][0 if v == "a" else 1])
        dst = os.path.join(OUT, sid)
        os.makedirs(dst, exist_ok=True)
        shutil.copy(src + "/patch.diff", dst + "/patch.diff")
        shutil.copy(src + "/demo.rs", dst + "/demo.rs")
        if os.path.exists(src + "/notes.md"):
            shutil.copy(src + "/notes.md", dst + "/notes.md")
        conf = {}
        cj = "/tmp/seedconfirm7_results/%s_%s.json" % (d, v)
        if os.path.exists(cj):
            conf = json.load(open(cj))
        r = subprocess.run(["/verif/dev/seedtest.sh", dst + "/patch.diff", d], stdout=subprocess.PIPE, stderr=subprocess.STDOUT, text=True)
        lines = r.stdout.strip().splitlines()
        verdict = "MISSED (check exits 0)"
        if any(l.startswith("FAIL") for l in lines):
            verdict = "VIOLATION"
        elif any(l.startswith("UNDECIDED") for l in lines):
            verdict = "UNDECIDED (exit 2)"
        obl = [l.strip() for l in lines if l.strip().startswith("obligation")]
        notes = open(src + "/notes.md").read() if os.path.exists(src + "/notes.md") else ""
        meta = {
            "id": sid, "property": d,
            "origin": "written by an independent sub-agent that saw only the property text and a scratch worktree of /repo (seventh round, one change per agent, 12-minute time box: told which ideas rounds 1-5 had used; prompt: dev/prompts/seed_round7.tmpl)",
            "what_it_needs_to_manifest": (re.findall(r"(?im)^.*(?:needs?|trigger|manifest)[^\n]*$", notes) or [""])[0][:400],
            "confirmed_by_me": {
                "scratch_worktree": "git -C /repo worktree add --detach /tmp/seedconfirm HEAD (removed afterwards)",
                "patch_applies": conf.get("apply") == "ok",
                "existing_suite_passes_with_change": conf.get("suite_rc_with_change") == "0",
                "demo_fails_with_change": conf.get("demo_rc_with_change") not in ("0", "", None),
                "demo_passes_without_change": conf.get("demo_rc_without_change") == "0",
                "commands": ["cargo test --offline --no-fail-fast --test sync_test --test async_test   (with the change)",
                             "cargo test --offline --test seed_demo_<id>   (with and without the change)"],
            },
            "check_result": {"cmd": "./check %s --repo <scratch copy of /repo/src with the patch>" % d, "verdict": verdict, "failed_obligations": obl[:8],
                             "summary": [l for l in lines if l.startswith(("OK", "FAIL", "UNDECIDED"))][:2]},
        }
        json.dump(meta, open(dst + "/meta.json", "w"), indent=1)
        print(sid, verdict, flush=True)
