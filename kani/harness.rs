//! Kani harness groups K1 (pointer.rs), K2 (signal.rs sequential protocol), K4 (handle layout).
//! Mounted into a scratch copy of the *unmodified* crate by one appended line in lib.rs:
//!     #[cfg(kani)] #[path = "/verif/kani/harness.rs"] mod verif_kani;
//! so the harnesses see pub(crate) items.  Every harness is loop-free and ranges over the full value
//! domain of its message type (kani::any()), hence complete for that type instance (not bounded).
#![allow(dead_code, unused_imports, static_mut_refs)]

use crate::pointer::KanalPtr;
use crate::signal::Signal;
use core::mem::{size_of, MaybeUninit};
use core::task::{Poll, RawWaker, RawWakerVTable, Waker};

// ---------------------------------------------------------------- message type classes
#[derive(Clone, Copy, PartialEq, Eq, Debug)]
pub struct Zst;
#[derive(Clone, Copy, PartialEq, Eq, Debug)]
#[repr(align(64))]
pub struct ZstAligned;
#[derive(Clone, Copy, PartialEq, Eq, Debug)]
#[repr(C)]
pub struct Padded {
    a: u8,
    b: u32,
}
#[derive(Clone, Copy, PartialEq, Eq, Debug)]
#[repr(C)]
pub struct PaddedBig {
    a: u8,
    b: u64,
    c: u16,
}
impl kani::Arbitrary for Zst {
    fn any() -> Self {
        Zst
    }
}
impl kani::Arbitrary for ZstAligned {
    fn any() -> Self {
        ZstAligned
    }
}
impl kani::Arbitrary for Padded {
    fn any() -> Self {
        Padded { a: kani::any(), b: kani::any() }
    }
}
impl kani::Arbitrary for PaddedBig {
    fn any() -> Self {
        PaddedBig { a: kani::any(), b: kani::any(), c: kani::any() }
    }
}

// drop accounting: every constructed value is dropped exactly once overall
static mut DROPS: u32 = 0;
pub struct DropZst;
impl Drop for DropZst {
    fn drop(&mut self) {
        unsafe { DROPS += 1 }
    }
}
pub struct DropSmall(u16);
impl Drop for DropSmall {
    fn drop(&mut self) {
        unsafe { DROPS += 1 }
    }
}
pub struct DropBig([u64; 3]);
impl Drop for DropBig {
    fn drop(&mut self) {
        unsafe { DROPS += 1 }
    }
}

// ---------------------------------------------------------------- K1: pointer.rs
/// sender lends its slot (new_from), receiver reads it: bit-for-bit
fn k1_lend_read<T: kani::Arbitrary + Copy + PartialEq>() {
    let v: T = kani::any();
    let mut slot = MaybeUninit::new(v);
    let p = KanalPtr::new_from(slot.as_mut_ptr());
    let r = unsafe { p.read() };
    assert!(r == v);
}
/// receiver lends an empty slot (new_write_address_ptr), sender writes, receiver reads per the size dispatch
fn k1_write_slot<T: kani::Arbitrary + Copy + PartialEq>() {
    let v: T = kani::any();
    let mut slot = MaybeUninit::<T>::uninit();
    let p = KanalPtr::new_write_address_ptr(slot.as_mut_ptr());
    unsafe { p.write(v) };
    let r = if size_of::<T>() > size_of::<*mut T>() { unsafe { slot.assume_init() } } else { unsafe { p.read() } };
    assert!(r == v);
}
/// same through copy()
fn k1_copy_slot<T: kani::Arbitrary + Copy + PartialEq>() {
    let v: T = kani::any();
    let mut slot = MaybeUninit::<T>::uninit();
    let p = KanalPtr::new_write_address_ptr(slot.as_mut_ptr());
    unsafe { p.copy(&v as *const T) };
    let r = if size_of::<T>() > size_of::<*mut T>() { unsafe { slot.assume_init() } } else { unsafe { p.read() } };
    assert!(r == v);
}
/// small values travel inside the pointer bits (new_owned)
fn k1_owned<T: kani::Arbitrary + Copy + PartialEq>() {
    if size_of::<T>() <= size_of::<*mut T>() {
        let v: T = kani::any();
        let p = KanalPtr::new_owned(v);
        let r = unsafe { p.read() };
        assert!(r == v);
    }
}
/// large values behind new_unchecked (async futures)
fn k1_unchecked<T: kani::Arbitrary + Copy + PartialEq>() {
    if size_of::<T>() > size_of::<*mut T>() {
        let v: T = kani::any();
        let mut slot = MaybeUninit::new(v);
        let p = KanalPtr::new_unchecked(slot.as_mut_ptr());
        let r = unsafe { p.read() };
        assert!(r == v);
        let w: T = kani::any();
        unsafe { p.write(w) };
        assert!(unsafe { slot.assume_init() } == w);
    }
}

macro_rules! k1 {
    ($t:ty, $a:ident, $b:ident, $c:ident, $d:ident, $e:ident) => {
        #[kani::proof]
        fn $a() {
            k1_lend_read::<$t>()
        }
        #[kani::proof]
        fn $b() {
            k1_write_slot::<$t>()
        }
        #[kani::proof]
        fn $c() {
            k1_copy_slot::<$t>()
        }
        #[kani::proof]
        fn $d() {
            k1_owned::<$t>()
        }
        #[kani::proof]
        fn $e() {
            k1_unchecked::<$t>()
        }
    };
}
k1!(Zst, k1_zst_lend_read, k1_zst_write_slot, k1_zst_copy_slot, k1_zst_owned, k1_zst_unchecked);
k1!(ZstAligned, k1_zst_aligned_lend_read, k1_zst_aligned_write_slot, k1_zst_aligned_copy_slot, k1_zst_aligned_owned, k1_zst_aligned_unchecked);
k1!(u8, k1_u8_lend_read, k1_u8_write_slot, k1_u8_copy_slot, k1_u8_owned, k1_u8_unchecked);
k1!(u16, k1_u16_lend_read, k1_u16_write_slot, k1_u16_copy_slot, k1_u16_owned, k1_u16_unchecked);
k1!([u8; 3], k1_u8x3_lend_read, k1_u8x3_write_slot, k1_u8x3_copy_slot, k1_u8x3_owned, k1_u8x3_unchecked);
k1!(u32, k1_u32_lend_read, k1_u32_write_slot, k1_u32_copy_slot, k1_u32_owned, k1_u32_unchecked);
k1!(u64, k1_u64_lend_read, k1_u64_write_slot, k1_u64_copy_slot, k1_u64_owned, k1_u64_unchecked);
k1!(usize, k1_usize_lend_read, k1_usize_write_slot, k1_usize_copy_slot, k1_usize_owned, k1_usize_unchecked);
k1!(Padded, k1_padded_lend_read, k1_padded_write_slot, k1_padded_copy_slot, k1_padded_owned, k1_padded_unchecked);
k1!([u64; 2], k1_u64x2_lend_read, k1_u64x2_write_slot, k1_u64x2_copy_slot, k1_u64x2_owned, k1_u64x2_unchecked);
k1!([u64; 3], k1_u64x3_lend_read, k1_u64x3_write_slot, k1_u64x3_copy_slot, k1_u64x3_owned, k1_u64x3_unchecked);
k1!(PaddedBig, k1_padded_big_lend_read, k1_padded_big_write_slot, k1_padded_big_copy_slot, k1_padded_big_owned, k1_padded_big_unchecked);

/// ownership through write/read: the writer does not drop the value it hands over, the reader gets one
macro_rules! k1_drop {
    ($name:ident, $mk:expr, $t:ty) => {
        #[kani::proof]
        fn $name() {
            unsafe { DROPS = 0 };
            {
                let mut slot = MaybeUninit::<$t>::uninit();
                let p = KanalPtr::new_write_address_ptr(slot.as_mut_ptr());
                let v: $t = $mk;
                unsafe { p.write(v) };
                assert!(unsafe { DROPS } == 0);
                let r: $t = if size_of::<$t>() > size_of::<*mut $t>() { unsafe { slot.assume_init() } } else { unsafe { p.read() } };
                assert!(unsafe { DROPS } == 0);
                drop(r);
            }
            assert!(unsafe { DROPS } == 1);
        }
    };
}
k1_drop!(k1_drop_zst, DropZst, DropZst);
k1_drop!(k1_drop_small, DropSmall(kani::any()), DropSmall);
k1_drop!(k1_drop_big, DropBig(kani::any()), DropBig);

#[kani::proof]
fn k1_drop_owned_small() {
    unsafe { DROPS = 0 };
    {
        let p = KanalPtr::new_owned(DropSmall(kani::any()));
        assert!(unsafe { DROPS } == 0);
        let r = unsafe { p.read() };
        drop(r);
    }
    assert!(unsafe { DROPS } == 1);
}
#[kani::proof]
fn k1_drop_owned_zst() {
    unsafe { DROPS = 0 };
    {
        let p = KanalPtr::new_owned(DropZst);
        assert!(unsafe { DROPS } == 0);
        let r = unsafe { p.read() };
        drop(r);
    }
    assert!(unsafe { DROPS } == 1);
}

// ---------------------------------------------------------------- K2: signal.rs, sequential protocol (async signals)
static mut WAKES_A: u32 = 0;
static mut WAKES_B: u32 = 0;
unsafe fn vt_clone_a(_: *const ()) -> RawWaker {
    RawWaker::new(core::ptr::null(), &VT_A)
}
unsafe fn vt_wake_a(_: *const ()) {
    WAKES_A += 1
}
unsafe fn vt_noop(_: *const ()) {}
static VT_A: RawWakerVTable = RawWakerVTable::new(vt_clone_a, vt_wake_a, vt_wake_a, vt_noop);
unsafe fn vt_clone_b(_: *const ()) -> RawWaker {
    RawWaker::new(core::ptr::null(), &VT_B)
}
unsafe fn vt_wake_b(_: *const ()) {
    WAKES_B += 1
}
static VT_B: RawWakerVTable = RawWakerVTable::new(vt_clone_b, vt_wake_b, vt_wake_b, vt_noop);
fn waker_a() -> Waker {
    unsafe { Waker::from_raw(RawWaker::new(core::ptr::null(), &VT_A)) }
}
fn waker_b() -> Waker {
    unsafe { Waker::from_raw(RawWaker::new(core::ptr::null(), &VT_B)) }
}

/// a blocked async receiver is completed by a peer's send: value arrives, state UNLOCKED, waker woken once
fn k2_send_small<T: kani::Arbitrary + Copy + PartialEq>() {
    unsafe { WAKES_A = 0 };
    let v: T = kani::any();
    let mut sig = Signal::<T>::new_async();
    assert!(matches!(sig.poll(), Poll::Pending));
    sig.register_waker(&waker_a());
    let t = sig.get_terminator();
    unsafe { t.send(v) };
    assert!(matches!(sig.poll(), Poll::Ready(true)));
    assert!(!sig.is_terminated());
    assert!(unsafe { sig.assume_init() } == v);
    assert!(unsafe { WAKES_A } == 1);
}
fn k2_send_big<T: kani::Arbitrary + Copy + PartialEq>() {
    unsafe { WAKES_A = 0 };
    let v: T = kani::any();
    let mut slot = MaybeUninit::<T>::uninit();
    let mut sig = Signal::<T>::new_async();
    sig.set_ptr(KanalPtr::new_unchecked(slot.as_mut_ptr()));
    sig.register_waker(&waker_a());
    let t = sig.get_terminator();
    unsafe { t.send(v) };
    assert!(matches!(sig.poll(), Poll::Ready(true)));
    assert!(unsafe { slot.assume_init() } == v);
    assert!(unsafe { WAKES_A } == 1);
}
/// a blocked async sender is completed by a peer's recv
fn k2_recv_small<T: kani::Arbitrary + Copy + PartialEq>() {
    unsafe { WAKES_A = 0 };
    let v: T = kani::any();
    let mut sig = Signal::<T>::new_async_ptr(KanalPtr::new_owned(v));
    sig.register_waker(&waker_a());
    let t = sig.get_terminator();
    let r = unsafe { t.recv() };
    assert!(r == v);
    assert!(matches!(sig.poll(), Poll::Ready(true)));
    assert!(unsafe { WAKES_A } == 1);
}
fn k2_recv_big<T: kani::Arbitrary + Copy + PartialEq>() {
    unsafe { WAKES_A = 0 };
    let v: T = kani::any();
    let mut slot = MaybeUninit::new(v);
    let mut sig = Signal::<T>::new_async();
    sig.set_ptr(KanalPtr::new_unchecked(slot.as_mut_ptr()));
    sig.register_waker(&waker_a());
    let t = sig.get_terminator();
    let r = unsafe { t.recv() };
    assert!(r == v);
    assert!(matches!(sig.poll(), Poll::Ready(true)));
    assert!(unsafe { WAKES_A } == 1);
}
#[kani::proof]
fn k2_send_u32() {
    k2_send_small::<u32>()
}
#[kani::proof]
fn k2_send_u64() {
    k2_send_small::<u64>()
}
#[kani::proof]
fn k2_send_zst() {
    k2_send_small::<Zst>()
}
#[kani::proof]
fn k2_send_u64x3() {
    k2_send_big::<[u64; 3]>()
}
#[kani::proof]
fn k2_recv_u16() {
    k2_recv_small::<u16>()
}
#[kani::proof]
fn k2_recv_u64() {
    k2_recv_small::<u64>()
}
#[kani::proof]
fn k2_recv_u64x2() {
    k2_recv_big::<[u64; 2]>()
}
/// terminate: the waiter sees `false`, is_terminated, woken once
#[kani::proof]
fn k2_terminate() {
    unsafe { WAKES_A = 0 };
    let mut sig = Signal::<u32>::new_async();
    sig.register_waker(&waker_a());
    let t = sig.get_terminator();
    unsafe { t.terminate() };
    assert!(matches!(sig.poll(), Poll::Ready(false)));
    assert!(sig.is_terminated());
    assert!(unsafe { WAKES_A } == 1);
}
/// the waker registered last is the one that is invoked (C16)
#[kani::proof]
fn k2_last_waker_wins() {
    unsafe {
        WAKES_A = 0;
        WAKES_B = 0;
    }
    let mut sig = Signal::<u32>::new_async();
    sig.register_waker(&waker_a());
    assert!(sig.will_wake(&waker_a()));
    assert!(!sig.will_wake(&waker_b()));
    sig.register_waker(&waker_b());
    assert!(sig.will_wake(&waker_b()));
    let t = sig.get_terminator();
    unsafe { t.send(kani::any()) };
    assert!(unsafe { WAKES_B } == 1);
    assert!(unsafe { WAKES_A } == 0);
}
/// sync signal, nobody parked: the peer's send completes it without unpark; value arrives
#[kani::proof]
fn k2_sync_send_u32() {
    let v: u32 = kani::any();
    let mut slot = MaybeUninit::<u32>::uninit();
    let sig = Signal::<u32>::new_sync(KanalPtr::new_write_address_ptr(slot.as_mut_ptr()));
    let t = sig.get_terminator();
    unsafe { t.send(v) };
    assert!(!sig.is_terminated());
    assert!(unsafe { sig.assume_init() } == v);
}
#[kani::proof]
fn k2_sync_recv_u64x3() {
    let v: [u64; 3] = kani::any();
    let mut slot = MaybeUninit::new(v);
    let sig = Signal::<[u64; 3]>::new_sync(KanalPtr::new_from(slot.as_mut_ptr()));
    let t = sig.get_terminator();
    let r = unsafe { t.recv() };
    assert!(r == v);
    assert!(!sig.is_terminated());
}
#[kani::proof]
fn k2_sync_terminate() {
    let mut slot = MaybeUninit::<u32>::uninit();
    let sig = Signal::<u32>::new_sync(KanalPtr::new_write_address_ptr(slot.as_mut_ptr()));
    let t = sig.get_terminator();
    unsafe { t.terminate() };
    assert!(sig.is_terminated());
}

/// a terminator identifies exactly the signal it was taken from (what cancel_* / *_exists rely on)
#[kani::proof]
fn k2_terminator_identity() {
    let a = Signal::<u32>::new_async();
    let b = Signal::<u32>::new_async();
    let ta = a.get_terminator();
    let tb = b.get_terminator();
    assert!(ta == a);
    assert!(tb == b);
    assert!(!(ta == b));
    assert!(!(tb == a));
}

// ---------------------------------------------------------------- K4: handle layout (C09)
macro_rules! k4 {
    ($name:ident, $t:ty) => {
        #[kani::proof]
        fn $name() {
            use core::mem::align_of;
            assert!(size_of::<crate::Sender<$t>>() == size_of::<crate::AsyncSender<$t>>());
            assert!(align_of::<crate::Sender<$t>>() == align_of::<crate::AsyncSender<$t>>());
            assert!(size_of::<crate::Receiver<$t>>() == size_of::<crate::AsyncReceiver<$t>>());
            assert!(align_of::<crate::Receiver<$t>>() == align_of::<crate::AsyncReceiver<$t>>());
            assert!(size_of::<crate::Sender<$t>>() == size_of::<crate::internal::Internal<$t>>());
            assert!(size_of::<crate::Receiver<$t>>() == size_of::<crate::internal::Internal<$t>>());
        }
    };
}
k4!(k4_layout_unit, ());
k4!(k4_layout_u64, u64);
k4!(k4_layout_big, [u64; 8]);

// ---------------------------------------------------------------- K3: internal.rs list functions on the UNREWRITTEN text
// Cross-check of exec rewrite X1 (the `for (i, x) in ..iter().enumerate()` loops are desugared for Verus):
// the same post-condition as the Verus contract, on the original function, for wait lists of length <= 3.
// BOUNDED (list length <= 3, unwind 5): reported as a bounded stand-in, never counted as proved.
mod k3 {
    use crate::internal::ChannelInternal;
    use crate::pointer::KanalPtr;
    use crate::signal::{Signal, SignalTerminator};
    extern crate alloc;
    use alloc::collections::VecDeque;

    fn mk(n: usize, recv_blocking: bool, sigs: &[Signal<u8>; 3]) -> ChannelInternal<u8> {
        let mut wl: VecDeque<SignalTerminator<u8>> = VecDeque::with_capacity(4);
        let mut i = 0;
        while i < n {
            wl.push_back(sigs[i].get_terminator());
            i += 1;
        }
        // built by the crate's own constructor (not a struct literal), so that a new field does not break the harness
        let arc = ChannelInternal::<u8>::new(true, 0);
        let mut c = match alloc::sync::Arc::try_unwrap(arc) {
            Ok(m) => m.into_inner(),
            Err(_) => unreachable!(),
        };
        c.recv_blocking = recv_blocking;
        c.wait_list = wl;
        c
    }
    fn sigs() -> [Signal<u8>; 3] {
        [Signal::new_sync(KanalPtr::default()), Signal::new_sync(KanalPtr::default()), Signal::new_sync(KanalPtr::default())]
    }

    #[kani::proof]
    #[kani::unwind(5)]
    fn k3_cancel_send_signal() {
        let s = sigs();
        let other: Signal<u8> = Signal::new_sync(KanalPtr::default());
        let n: usize = kani::any();
        kani::assume(n <= 3);
        let rb: bool = kani::any();
        let mut c = mk(n, rb, &s);
        let k: usize = kani::any();
        kani::assume(k <= 3);
        let target: &Signal<u8> = if k < 3 { &s[k] } else { &other };
        let r = c.cancel_send_signal(target);
        let present = !rb && k < n;
        assert!(r == present);
        if r {
            assert!(c.wait_list.len() == n - 1);
            // the others keep their order
            let mut j = 0;
            let mut idx = 0;
            while j < n {
                if j != k {
                    assert!(c.wait_list[idx] == s[j]);
                    idx += 1;
                }
                j += 1;
            }
        } else {
            assert!(c.wait_list.len() == n);
        }
        assert!(c.recv_blocking == rb);
    }

    #[kani::proof]
    #[kani::unwind(5)]
    fn k3_cancel_recv_signal() {
        let s = sigs();
        let other: Signal<u8> = Signal::new_sync(KanalPtr::default());
        let n: usize = kani::any();
        kani::assume(n <= 3);
        let rb: bool = kani::any();
        let mut c = mk(n, rb, &s);
        let k: usize = kani::any();
        kani::assume(k <= 3);
        let target: &Signal<u8> = if k < 3 { &s[k] } else { &other };
        let r = c.cancel_recv_signal(target);
        let present = rb && k < n;
        assert!(r == present);
        if r {
            assert!(c.wait_list.len() == n - 1);
            let mut j = 0;
            let mut idx = 0;
            while j < n {
                if j != k {
                    assert!(c.wait_list[idx] == s[j]);
                    idx += 1;
                }
                j += 1;
            }
        } else {
            assert!(c.wait_list.len() == n);
        }
    }
}
