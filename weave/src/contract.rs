//! Parser for the contract files (`contracts/*.kc`).
//!
//! Line oriented.  A directive starts at the beginning of a line (after optional
//! indentation) with one of the keywords below; the free text that follows a
//! directive (expression / proof text) continues over the following lines until
//! the next directive keyword.  `#` at the start of a (trimmed) line is a comment.

use std::collections::BTreeMap;

#[derive(Debug, Clone, Default)]
pub struct Clause {
    pub id: String,
    pub props: Vec<String>,
    pub text: String,
}

#[derive(Debug, Clone, Default)]
pub struct LoopSpec {
    pub iter_name: Option<String>,
    /// `loop n early-exit`: the contract was written for a loop that leaves early (break / continue)
    pub early_exit: bool,
    /// (keyword, clause) keyword in invariant / invariant_except_break / ensures / decreases
    pub clauses: Vec<(String, Clause)>,
}

#[derive(Debug, Clone)]
pub struct Bind {
    pub var: String,     // "$sig"
    pub how: String,     // let-init-prefix | let-init-suffix | let-init-contains
    pub pat: String,     // text with whitespace removed
    pub nth: usize,      // 1-based
    /// `bind?`: may be missing when the function lends a plain local instead (X9); see weave_body
    pub optional: bool,
    /// `bind~`: if no local matches, the clauses that mention the placeholder are dropped (with a note) instead of the
    /// whole function being a lost anchor
    pub soft: bool,
}

#[derive(Debug, Clone)]
pub struct ExitAssert {
    pub var: String,
    pub clause: Clause,
    /// the clause mentions `$retval`: evaluated after the exit's value has been computed (X7 wrap)
    pub on_ret: bool,
}

#[derive(Debug, Clone)]
pub struct Hint {
    pub anchor: String, // after-let $x | before-call name nth | after-call name nth | body-start
    pub text: String,
}

#[derive(Debug, Clone, Default)]
pub struct FnContract {
    pub file: String,
    pub keys: Vec<String>, // Owner::name (Owner may be @macro or empty for free fn)
    pub emit_as: Option<String>,
    pub fx: bool,
    pub ret: Option<String>,
    pub requires: Vec<Clause>,
    pub ensures: Vec<Clause>,
    pub decreases: Option<String>,
    pub loops: BTreeMap<usize, LoopSpec>,
    pub binds: Vec<Bind>,
    pub exit_asserts: Vec<ExitAssert>,
    pub hints: Vec<Hint>,
    /// proof text executed at every exit of the function
    pub exit_ghost: Vec<String>,
    /// `once-true <callee> [ID props]`: after a call of <callee> returned true no further call of it is made
    pub once_true: Option<(String, Clause)>,
    /// `before-each-call f|g|.. [ID props] expr`: expr is asserted before every statement that calls one of the callees
    pub before_each: Vec<(Vec<String>, Clause)>,
    /// `no-wait-after-final <field> <bound> f|g|.. [ID props]`: a ghost flag is set after every `let v = <..>.<field>.load(..)`
    /// whose value is below <bound>; before every statement calling one of the callees the flag must be clear
    pub no_wait_after_final: Option<(String, String, Vec<String>, Clause)>,
    /// closure ordinal -> (return type, ensures clause)
    pub closures: BTreeMap<usize, (String, Clause)>,
    pub attrs: Vec<String>, // extra verifier attributes, e.g. exec_allows_no_decreases_clause
    pub shape: Option<String>, // `shape transmute` : do not weave, only check body shape (X5)
    pub line: usize,
}

#[derive(Debug, Clone)]
pub struct CopyItem {
    pub file: String,
    pub kind: String,
    pub name: String,
    pub derive: Option<String>,
}

#[derive(Debug, Clone, Default)]
pub struct Unit {
    pub name: String,
    pub fxcalls: Vec<(String, usize)>,
    pub guard_fns: Vec<String>,
    pub try_guard_fns: Vec<String>,
    pub copies: Vec<CopyItem>,
    pub fns: Vec<FnContract>,
    pub preludes: Vec<String>,
    pub type_rewrites: Vec<(String, String)>,
    /// `x11-arg <expr>`: a call argument with exactly this text is a raw signal pointer held in a rewritten field; it is
    /// passed on as `<expr>.as_ref()` (X11)
    pub x11_args: Vec<String>,
    /// filled by the weaver from the source files: type alias name -> its right-hand side (whitespace removed)
    pub aliases: BTreeMap<String, String>,
    /// (file, clause with id/props, text that must occur in the file, whitespace-insensitively)
    pub require_texts: Vec<(String, Clause)>,
}

const FN_KEYS: &[&str] = &[
    "emit-as", "fx", "ret", "requires", "ensures", "decreases", "loop", "bind", "bind?", "bind~", "exit-assert",
    "hint", "attr", "shape", "exit-assert-ret", "exit-ghost", "closure", "once-true", "before-each-call", "no-wait-after-final",
];
const TOP_KEYS: &[&str] = &["unit", "fxcalls", "guardfn", "tryguardfn", "copy", "fn", "prelude", "typerewrite", "require-text", "x11-arg"];

fn first_word(l: &str) -> &str {
    l.trim_start().split_whitespace().next().unwrap_or("")
}

fn parse_tag(rest: &str, line: usize) -> (Clause, String) {
    // "[ID P1 P2] remaining text"
    let rest = rest.trim_start();
    if !rest.starts_with('[') {
        panic!("contract line {}: expected [ID props..]", line);
    }
    let close = rest.find(']').unwrap_or_else(|| panic!("contract line {}: missing ]", line));
    let inner = &rest[1..close];
    let mut it = inner.split_whitespace();
    let id = it.next().unwrap_or_else(|| panic!("contract line {}: empty tag", line)).to_string();
    let props: Vec<String> = it.map(|s| s.to_string()).collect();
    (Clause { id, props, text: String::new() }, rest[close + 1..].trim().to_string())
}

pub fn parse(text: &str, path: &str) -> Unit {
    let mut unit = Unit::default();
    let lines: Vec<&str> = text.lines().collect();
    let mut i = 0;
    let mut cur: Option<FnContract> = None;
    // Collect continuation text for the previous directive.
    fn take_text(lines: &[&str], i: &mut usize, first: String) -> String {
        let mut out = first;
        while *i < lines.len() {
            let l = lines[*i];
            let t = l.trim();
            if t.starts_with('#') && !t.starts_with("#[") {
                *i += 1;
                continue;
            }
            let w = first_word(l);
            if (FN_KEYS.contains(&w) || TOP_KEYS.contains(&w)) && !t.is_empty() {
                break;
            }
            if !out.is_empty() {
                out.push('\n');
            }
            out.push_str(l.trim_end());
            *i += 1;
        }
        out.trim().to_string()
    }
    while i < lines.len() {
        let l = lines[i];
        let ln = i + 1;
        let t = l.trim();
        i += 1;
        if t.is_empty() || (t.starts_with('#') && !t.starts_with("#[")) {
            continue;
        }
        let w = first_word(l);
        let rest = t[w.len()..].trim().to_string();
        match w {
            "unit" => unit.name = rest,
            "prelude" => unit.preludes.push(rest),
            "fxcalls" => {
                for p in rest.split_whitespace() {
                    let (n, a) = p.split_once('/').unwrap_or_else(|| panic!("{}:{}: bad fxcall {}", path, ln, p));
                    unit.fxcalls.push((n.to_string(), a.parse().unwrap()));
                }
            }
            "guardfn" => unit.guard_fns.extend(rest.split_whitespace().map(|s| s.to_string())),
            "tryguardfn" => unit.try_guard_fns.extend(rest.split_whitespace().map(|s| s.to_string())),
            "require-text" => {
                // require-text <file> [ID props] text
                let (file, tail) = rest.split_once(char::is_whitespace).unwrap_or_else(|| panic!("{}:{}: require-text <file> [ID ..] text", path, ln));
                let (mut cl, first) = parse_tag(tail, ln);
                cl.text = first;
                if let Some(c) = cur.take() {
                    unit.fns.push(c);
                }
                unit.require_texts.push((file.to_string(), cl));
            }
            "x11-arg" => unit.x11_args.push(rest.chars().filter(|c| !c.is_whitespace()).collect()),
            "typerewrite" => {
                let (a, b) = rest.split_once("=>").unwrap_or_else(|| panic!("{}:{}: bad typerewrite", path, ln));
                unit.type_rewrites.push((a.trim().to_string(), b.trim().to_string()));
            }
            "copy" => {
                let ws: Vec<&str> = rest.split_whitespace().collect();
                if ws.len() < 3 {
                    panic!("{}:{}: copy <file> <kind> <name> [derive(..)]", path, ln);
                }
                let derive = if ws.len() > 3 { Some(ws[3..].join(" ")) } else { None };
                unit.copies.push(CopyItem { file: ws[0].into(), kind: ws[1].into(), name: ws[2].into(), derive });
            }
            "fn" => {
                if let Some(c) = cur.take() {
                    unit.fns.push(c);
                }
                let ws: Vec<&str> = rest.split_whitespace().collect();
                if ws.len() < 2 {
                    panic!("{}:{}: fn <file> <Owner::name>...", path, ln);
                }
                let mut c = FnContract::default();
                c.file = ws[0].to_string();
                c.keys = ws[1..].iter().map(|s| s.to_string()).collect();
                c.line = ln;
                cur = Some(c);
            }
            _ => {
                let c = cur.as_mut().unwrap_or_else(|| panic!("{}:{}: directive `{}` outside fn", path, ln, w));
                match w {
                    "emit-as" => c.emit_as = Some(rest),
                    "fx" => c.fx = true,
                    "ret" => c.ret = Some(rest),
                    "attr" => c.attrs.push(rest),
                    "shape" => c.shape = Some(rest),
                    "requires" | "ensures" => {
                        let (mut cl, first) = parse_tag(&rest, ln);
                        cl.text = take_text(&lines, &mut i, first);
                        if w == "requires" { c.requires.push(cl) } else { c.ensures.push(cl) }
                    }
                    "decreases" => c.decreases = Some(take_text(&lines, &mut i, rest)),
                    "loop" => {
                        // loop <n> <kw> [tag] text   |  loop <n> iter-name it
                        let mut ws = rest.splitn(3, char::is_whitespace);
                        let n: usize = ws.next().unwrap().parse().unwrap_or_else(|_| panic!("{}:{}: loop ordinal", path, ln));
                        let kw = ws.next().unwrap_or("").to_string();
                        let tail = ws.next().unwrap_or("").to_string();
                        let ls = c.loops.entry(n).or_default();
                        if kw == "iter-name" {
                            ls.iter_name = Some(tail.trim().to_string());
                        } else if kw == "early-exit" {
                            ls.early_exit = true;
                        } else if kw == "decreases" {
                            let txt = take_text(&lines, &mut i, tail);
                            ls.clauses.push((kw, Clause { id: String::new(), props: vec![], text: txt }));
                        } else if ["invariant", "invariant_except_break", "ensures"].contains(&kw.as_str()) {
                            let (mut cl, first) = parse_tag(&tail, ln);
                            cl.text = take_text(&lines, &mut i, first);
                            ls.clauses.push((kw, cl));
                        } else {
                            panic!("{}:{}: unknown loop clause `{}`", path, ln, kw);
                        }
                    }
                    "bind" | "bind?" | "bind~" => {
                        // bind $x = let-init-prefix TEXT [#n]
                        let ws: Vec<&str> = rest.split_whitespace().collect();
                        if ws.len() < 4 || ws[1] != "=" {
                            panic!("{}:{}: bind $x = <how> <pattern> [#n]", path, ln);
                        }
                        let mut nth = 1;
                        let mut pat_words = &ws[3..];
                        if let Some(last) = pat_words.last() {
                            if let Some(n) = last.strip_prefix('#') {
                                if let Ok(n) = n.parse::<usize>() {
                                    nth = n;
                                    pat_words = &pat_words[..pat_words.len() - 1];
                                }
                            }
                        }
                        c.binds.push(Bind { var: ws[0].into(), how: ws[2].into(), pat: pat_words.join(""), nth, optional: w == "bind?", soft: w == "bind~" });
                    }
                    "exit-assert" | "exit-assert-ret" => {
                        let (var, tail) = rest.split_once(char::is_whitespace).unwrap_or_else(|| panic!("{}:{}: exit-assert $x [..] expr", path, ln));
                        let (mut cl, first) = parse_tag(tail, ln);
                        cl.text = take_text(&lines, &mut i, first);
                        c.exit_asserts.push(ExitAssert { var: var.to_string(), clause: cl, on_ret: w == "exit-assert-ret" });
                    }
                    "closure" => {
                        // closure <n> -> <type> ensures [tag] text
                        let mut ws = rest.splitn(2, char::is_whitespace);
                        let n: usize = ws.next().unwrap().parse().unwrap_or_else(|_| panic!("{}:{}: closure ordinal", path, ln));
                        let tail = ws.next().unwrap_or("").trim();
                        let tail = tail.strip_prefix("->").unwrap_or_else(|| panic!("{}:{}: closure <n> -> <type> ensures [..] text", path, ln));
                        let (ty, e) = tail.split_once(" ensures ").unwrap_or_else(|| panic!("{}:{}: closure needs `ensures`", path, ln));
                        let (mut cl, first) = parse_tag(e, ln);
                        cl.text = take_text(&lines, &mut i, first);
                        c.closures.insert(n, (ty.trim().to_string(), cl));
                    }
                    "once-true" => {
                        let (name, tail) = rest.split_once(char::is_whitespace).unwrap_or_else(|| panic!("{}:{}: once-true <callee> [ID props]", path, ln));
                        let (mut cl, _first) = parse_tag(tail, ln);
                        cl.text = "!once__".to_string();
                        c.once_true = Some((name.to_string(), cl));
                    }
                    "no-wait-after-final" => {
                        let mut ws = rest.splitn(4, char::is_whitespace);
                        let field = ws.next().unwrap_or("").to_string();
                        let bound = ws.next().unwrap_or("").to_string();
                        let names: Vec<String> = ws.next().unwrap_or("").split('|').map(|x| x.to_string()).collect();
                        let (mut cl, _first) = parse_tag(ws.next().unwrap_or(""), ln);
                        cl.text = "!final_seen__".to_string();
                        c.no_wait_after_final = Some((field, bound, names, cl));
                    }
                    "before-each-call" => {
                        let (names, tail) = rest.split_once(char::is_whitespace).unwrap_or_else(|| panic!("{}:{}: before-each-call <f|g> [ID props] expr", path, ln));
                        let (mut cl, first) = parse_tag(tail, ln);
                        cl.text = take_text(&lines, &mut i, first);
                        c.before_each.push((names.split('|').map(|x| x.to_string()).collect(), cl));
                    }
                    "exit-ghost" => {
                        let txt = take_text(&lines, &mut i, rest.trim_start_matches(':').trim().to_string());
                        c.exit_ghost.push(txt);
                    }
                    "hint" => {
                        let (anchor, first) = rest.split_once(':').unwrap_or_else(|| panic!("{}:{}: hint <anchor> : text", path, ln));
                        let txt = take_text(&lines, &mut i, first.trim().to_string());
                        c.hints.push(Hint { anchor: anchor.trim().to_string(), text: txt });
                    }
                    _ => panic!("{}:{}: unknown directive `{}`", path, ln, w),
                }
            }
        }
    }
    if let Some(c) = cur.take() {
        unit.fns.push(c);
    }
    unit
}
