//! kweave: extracts the real text of kanal's functions from /repo/src, inserts ghost-only
//! contract text and a declared set of exec rewrites, and emits a single Verus input file
//! plus a JSON map (obligation ids, source lines, rewrites, audit result).

mod contract;
mod weave;

use contract::*;
use std::collections::{BTreeMap, BTreeSet};
use syn::spanned::Spanned;
use weave::*;

struct ImplItems(Vec<syn::ImplItem>);
impl syn::parse::Parse for ImplItems {
    fn parse(input: syn::parse::ParseStream) -> syn::Result<Self> {
        let mut v = vec![];
        while !input.is_empty() {
            v.push(input.parse::<syn::ImplItem>()?);
        }
        Ok(ImplItems(v))
    }
}

struct Out {
    text: String,
    /// (out_start, out_len, file, src_start)
    chunks: Vec<(usize, usize, String, usize)>,
    fns: Vec<serde_json::Value>,
    audit_fail: Vec<String>,
}

struct Args {
    repo: String,
    kcs: Vec<String>,
    out: String,
    map: String,
    vacuity: bool,
    localise: bool,
    only: Option<String>,
}

fn parse_args() -> Args {
    let mut a = Args { repo: "/repo".into(), kcs: vec![], out: String::new(), map: String::new(), vacuity: false, localise: false, only: None };
    let mut it = std::env::args().skip(1);
    while let Some(x) = it.next() {
        match x.as_str() {
            "--repo" => a.repo = it.next().unwrap(),
            "--kc" => a.kcs.push(it.next().unwrap()),
            "--out" => a.out = it.next().unwrap(),
            "--map" => a.map = it.next().unwrap(),
            "--vacuity" => a.vacuity = true,
            "--localise" => a.localise = true,
            "--only" => a.only = it.next(),
            _ => fatal(&format!("unknown argument {}", x)),
        }
    }
    if a.kcs.is_empty() || a.out.is_empty() || a.map.is_empty() {
        fatal("usage: kweave --repo DIR --kc FILE.. --out FILE --map FILE [--vacuity]");
    }
    a
}

fn type_ident(t: &syn::Type) -> Option<String> {
    if let syn::Type::Path(p) = t {
        return p.path.segments.last().map(|s| s.ident.to_string());
    }
    None
}

fn macro_bodies(file: &SrcFile) -> BTreeMap<String, Vec<syn::ImplItem>> {
    let mut out = BTreeMap::new();
    for it in file.ast.items.iter() {
        if let syn::Item::Macro(m) = it {
            if m.mac.path.is_ident("macro_rules") {
                if let Some(name) = &m.ident {
                    // () => { ... };
                    let toks: Vec<proc_macro2::TokenTree> = m.mac.tokens.clone().into_iter().collect();
                    let mut body = None;
                    for (i, t) in toks.iter().enumerate() {
                        if let proc_macro2::TokenTree::Group(g) = t {
                            if g.delimiter() == proc_macro2::Delimiter::Brace && i >= 3 {
                                body = Some(g.stream());
                                break;
                            }
                        }
                    }
                    if let Some(b) = body {
                        match syn::parse2::<ImplItems>(b) {
                            Ok(items) => {
                                out.insert(name.to_string(), items.0);
                            }
                            Err(_) => {}
                        }
                    }
                }
            }
        }
    }
    out
}

fn find_contract<'u>(unit: &'u Unit, file: &str, keys: &[String]) -> Option<&'u FnContract> {
    for c in unit.fns.iter() {
        if c.file != file {
            continue;
        }
        for k in c.keys.iter() {
            if keys.iter().any(|x| x == k) {
                return Some(c);
            }
        }
    }
    // a function that comes out of a `macro_rules!` body keeps its contract when the macro is renamed or split: match
    // `@<any macro>::name` by the function name if exactly one contract of this file is keyed that way
    if !keys.iter().any(|k| k.starts_with('@')) {
        return None;
    }
    let name = keys.iter().filter_map(|k| k.rsplit("::").next()).next()?;
    let mut hit: Option<&'u FnContract> = None;
    for c in unit.fns.iter() {
        if c.file != file {
            continue;
        }
        if c.keys.iter().any(|k| k.starts_with('@') && k.rsplit("::").next() == Some(name)) {
            if hit.is_some() {
                return None;
            }
            hit = Some(c);
        }
    }
    hit
}

#[allow(clippy::too_many_arguments)]
fn weave_fn(
    file: &SrcFile,
    unit: &Unit,
    ctx: &mut Ctx,
    out: &mut Out,
    label: String,
    c: &FnContract,
    attrs: &[syn::Attribute],
    sig: &syn::Signature,
    block: &syn::Block,
    assoc: &BTreeMap<String, String>,
    is_trait_impl: bool,
    vacuity: bool,
    indent: &str,
    self_fx: &[(String, usize)],
    localise: bool,
) {
    let src = &file.text;
    let start = lo(sig.span());
    let end = hi(block.span());
    if let Some(shape) = &c.shape {
        // X5: not woven, body must have the declared shape
        let body: String = src[lo(block.span())..end].chars().filter(|ch| !ch.is_whitespace()).collect();
        let stripped = strip_comments(&src[lo(block.span())..end]);
        let body2: String = stripped.chars().filter(|ch| !ch.is_whitespace()).collect();
        let want = match shape.as_str() {
            "transmute" => "{unsafe{transmute(self)}}",
            other => fatal(&format!("unknown shape {}", other)),
        };
        let ok = body == want || body2 == want;
        out.fns.push(serde_json::json!({
            "func": label, "file": file.name, "src_line": line_of(src, start), "src_end_line": line_of(src, end),
            "woven": false, "shape": shape, "shape_ok": ok,
        }));
        if !ok {
            ctx.obligations.push(Obligation {
                idx: ctx.obligations.len(),
                id: "X5-shape".into(),
                props: vec!["C09".into(), "C12".into()],
                kind: "shape-failed".into(),
                func: label,
                src_file: file.name.clone(),
                text: format!("body must be exactly `{}`", want),
            });
        }
        return;
    }
    let first_ob = ctx.obligations.len();
    let first_rw = ctx.rewrites.len();
    let mut w = new_weaver(src, &file.name, label.clone(), c, unit, ctx);
    w.self_fx = self_fx.to_vec();
    w.weave_sig(sig, assoc, is_trait_impl);
    if vacuity {
        w.set_vacuity();
    }
    if localise {
        w.set_localise();
    }
    w.weave_body(block);
    let mut edits = std::mem::take(&mut w.edits);
    drop(w);
    let woven = apply_edits(src, start, end, &mut edits);
    if let Err(e) = audit(&woven.text, &src[start..end]) {
        out.audit_fail.push(format!("{}: {}", label, e));
    }
    ctx.bytes_verbatim += woven.chunks.iter().map(|c| c.out_len).sum::<usize>();
    let cfg = cfg_attrs(attrs, src);
    out.text.push_str(indent);
    out.text.push_str(&cfg.replace('\n', &format!("\n{}", indent)));
    for a in c.attrs.iter() {
        out.text.push_str(&format!("#[{}]\n{}", a, indent));
    }
    out.text.push_str("pub ");
    let base = out.text.len();
    let out_line_start = line_of(&out.text, base);
    for ch in woven.chunks.iter() {
        out.chunks.push((base + ch.out_start, ch.out_len, file.name.clone(), ch.src_start));
    }
    out.text.push_str(&woven.text);
    out.text.push_str("\n\n");
    let out_line_end = line_of(&out.text, out.text.len() - 2);
    let dropped: Vec<String> = dropped_attrs(attrs).into_iter().collect();
    out.fns.push(serde_json::json!({
        "func": label, "file": file.name, "src_line": line_of(src, start), "src_end_line": line_of(src, end),
        "woven": true, "out_line": out_line_start, "out_end_line": out_line_end,
        "bytes": end - start, "obligations": (first_ob..ctx.obligations.len()).collect::<Vec<_>>(),
        "rewrites": (first_rw..ctx.rewrites.len()).collect::<Vec<_>>(), "contract_line": c.line,
        "dropped_attrs": dropped,
    }));
}

fn strip_comments(s: &str) -> String {
    let mut out = String::new();
    let b = s.as_bytes();
    let mut i = 0;
    while i < b.len() {
        if b[i] == b'/' && i + 1 < b.len() && b[i + 1] == b'/' {
            while i < b.len() && b[i] != b'\n' {
                i += 1;
            }
        } else if b[i] == b'/' && i + 1 < b.len() && b[i + 1] == b'*' {
            i += 2;
            while i + 1 < b.len() && !(b[i] == b'*' && b[i + 1] == b'/') {
                i += 1;
            }
            i += 2;
        } else {
            out.push(b[i] as char);
            i += 1;
        }
    }
    out
}

fn copy_item(file: &SrcFile, ci: &CopyItem, unit: &Unit, out: &mut Out, ctx: &mut Ctx) -> bool {
    let src = &file.text;
    for it in file.ast.items.iter() {
        let (ident, kw_start, end, attrs): (String, usize, usize, &Vec<syn::Attribute>) = match (ci.kind.as_str(), it) {
            ("struct", syn::Item::Struct(s)) => (s.ident.to_string(), lo(s.struct_token.span()), hi(s.span()), &s.attrs),
            ("enum", syn::Item::Enum(s)) => (s.ident.to_string(), lo(s.enum_token.span()), hi(s.span()), &s.attrs),
            ("type", syn::Item::Type(s)) => (s.ident.to_string(), lo(s.type_token.span()), hi(s.span()), &s.attrs),
            ("const", syn::Item::Const(s)) => (s.ident.to_string(), lo(s.const_token.span()), hi(s.span()), &s.attrs),
            _ => continue,
        };
        if ident != ci.name {
            continue;
        }
        let mut edits: Vec<Edit> = vec![];
        let mut seq = 0;
        if let syn::Item::Struct(s) = it {
            for f in s.fields.iter() {
                if f.ident.is_none() {
                    // tuple struct: X6 (visibility normalised to `pub`) and declared type rewrites
                    let (vs, ve) = match &f.vis {
                        syn::Visibility::Inherited => (lo(f.ty.span()), lo(f.ty.span())),
                        v => (lo(v.span()), hi(v.span())),
                    };
                    seq += 1;
                    edits.push(Edit { start: vs, end: ve, text: if vs == ve { "pub ".into() } else { "pub".into() }, kind: EK::Rewrite("X6"), seq, prio: 90 });
                    let ty: String = src[lo(f.ty.span())..hi(f.ty.span())].chars().filter(|c| !c.is_whitespace()).collect();
                    for (from, to) in unit.type_rewrites.iter() {
                        let f2: String = from.chars().filter(|c| !c.is_whitespace()).collect();
                        if ty == f2 {
                            let rule = if f2.starts_with("*const") { "X11" } else { "X3" };
                            seq += 1;
                            edits.push(Edit { start: lo(f.ty.span()), end: hi(f.ty.span()), text: to.clone(), kind: EK::Rewrite(rule), seq, prio: 100 });
                            ctx.rewrites.push(RewriteRec { rule: rule.into(), func: format!("struct {}", ident), src_file: file.name.clone(), src_line: line_of(src, lo(f.ty.span())), before: src[lo(f.ty.span())..hi(f.ty.span())].to_string(), after: to.clone() });
                        }
                    }
                    continue;
                }
                // X6: field visibility normalised to `pub`
                let (vs, ve) = match &f.vis {
                    syn::Visibility::Inherited => {
                        let p = lo(f.ident.as_ref().unwrap().span());
                        (p, p)
                    }
                    v => (lo(v.span()), hi(v.span())),
                };
                seq += 1;
                edits.push(Edit { start: vs, end: ve, text: if vs == ve { "pub ".into() } else { "pub".into() }, kind: EK::Rewrite("X6"), seq, prio: 100 });
                // X6: attributes / doc comments on fields dropped
                for a in f.attrs.iter() {
                    if !a.path().is_ident("cfg") {
                        seq += 1;
                        edits.push(Edit { start: lo(a.span()), end: hi(a.span()), text: String::new(), kind: EK::Rewrite("X6"), seq, prio: 100 });
                    }
                }
                // declared type rewrites (X3)
                let ty: String = src[lo(f.ty.span())..hi(f.ty.span())].chars().filter(|c| !c.is_whitespace()).collect();
                for (from, to) in unit.type_rewrites.iter() {
                    let f2: String = from.chars().filter(|c| !c.is_whitespace()).collect();
                    if ty == f2 {
                        seq += 1;
                        edits.push(Edit { start: lo(f.ty.span()), end: hi(f.ty.span()), text: to.clone(), kind: EK::Rewrite("X3"), seq, prio: 100 });
                        ctx.rewrites.push(RewriteRec { rule: "X3".into(), func: format!("struct {}", ident), src_file: file.name.clone(), src_line: line_of(src, lo(f.ty.span())), before: src[lo(f.ty.span())..hi(f.ty.span())].to_string(), after: to.clone() });
                    }
                }
            }
        }
        if let syn::Item::Type(t) = it {
            // an alias of a rewritten type is an alias of the stand-in
            let ty: String = src[lo(t.ty.span())..hi(t.ty.span())].chars().filter(|c| !c.is_whitespace()).collect();
            for (from, to) in unit.type_rewrites.iter() {
                let f2: String = from.chars().filter(|c| !c.is_whitespace()).collect();
                if ty == f2 {
                    let rule = if f2.starts_with("*const") { "X11" } else { "X3" };
                    seq += 1;
                    edits.push(Edit { start: lo(t.ty.span()), end: hi(t.ty.span()), text: to.clone(), kind: EK::Rewrite(rule), seq, prio: 100 });
                    ctx.rewrites.push(RewriteRec { rule: rule.into(), func: format!("type {}", ident), src_file: file.name.clone(), src_line: line_of(src, lo(t.ty.span())), before: src[lo(t.ty.span())..hi(t.ty.span())].to_string(), after: to.clone() });
                }
            }
        }
        if let syn::Item::Enum(s) = it {
            for v in s.variants.iter() {
                for a in v.attrs.iter() {
                    if !a.path().is_ident("cfg") {
                        seq += 1;
                        edits.push(Edit { start: lo(a.span()), end: hi(a.span()), text: String::new(), kind: EK::Rewrite("X6"), seq, prio: 100 });
                    }
                }
            }
        }
        let woven = apply_edits(src, kw_start, end, &mut edits);
        if let Err(e) = audit(&woven.text, &src[kw_start..end]) {
            out.audit_fail.push(format!("{} {}: {}", ci.kind, ci.name, e));
        }
        out.text.push_str(&cfg_attrs(attrs, src));
        // a constant whose initialiser calls a function (`Duration::from_nanos(..)`) cannot be evaluated by the verifier:
        // it is kept as an opaque constant of its type
        if let syn::Item::Const(c) = it {
            struct HasCall(bool);
            impl<'ast> syn::visit::Visit<'ast> for HasCall {
                fn visit_expr_call(&mut self, _: &'ast syn::ExprCall) {
                    self.0 = true;
                }
                fn visit_expr_method_call(&mut self, _: &'ast syn::ExprMethodCall) {
                    self.0 = true;
                }
            }
            let mut v = HasCall(false);
            syn::visit::Visit::visit_expr(&mut v, &c.expr);
            if v.0 {
                out.text.push_str("#[verifier::external_body]\n");
            }
        }
        if let Some(d) = &ci.derive {
            out.text.push_str(&format!("#[{}]\n", d));
        }
        out.text.push_str("pub ");
        let base = out.text.len();
        for ch in woven.chunks.iter() {
            out.chunks.push((base + ch.out_start, ch.out_len, file.name.clone(), ch.src_start));
        }
        out.text.push_str(&woven.text);
        out.text.push_str("\n\n");
        out.fns.push(serde_json::json!({"item": format!("{} {}", ci.kind, ci.name), "file": file.name, "src_line": line_of(src, kw_start), "woven": true, "copied": true}));
        return true;
    }
    false
}

fn main() {
    let args = parse_args();
    let mut kc_text = String::new();
    for k in args.kcs.iter() {
        kc_text.push_str(&std::fs::read_to_string(k).unwrap_or_else(|e| fatal(&format!("cannot read {}: {}", k, e))));
        kc_text.push('\n');
    }
    let mut unit = contract::parse(&kc_text, &args.kcs.join("+"));
    let kc_dir = std::path::Path::new(&args.kcs[0]).parent().unwrap().to_path_buf();

    // source files
    let mut files: BTreeMap<String, SrcFile> = BTreeMap::new();
    let mut order: Vec<String> = vec![];
    let mut names: Vec<String> = unit.copies.iter().map(|c| c.file.clone()).collect();
    names.extend(unit.fns.iter().map(|f| f.file.clone()));
    for n in names {
        if files.contains_key(&n) {
            continue;
        }
        let p = format!("{}/src/{}", args.repo, n);
        let text = std::fs::read_to_string(&p).unwrap_or_else(|e| fatal(&format!("cannot read {}: {}", p, e)));
        let ast = syn::parse_file(&text).unwrap_or_else(|e| fatal(&format!("{} does not parse: {}", p, e)));
        order.push(n.clone());
        files.insert(n.clone(), SrcFile { name: n, text, ast });
    }

    for f in files.values() {
        for it in f.ast.items.iter() {
            if let syn::Item::Type(t) = it {
                let rhs: String = f.text[lo(t.ty.span())..hi(t.ty.span())].chars().filter(|c| !c.is_whitespace()).collect();
                unit.aliases.insert(t.ident.to_string(), rhs);
            }
        }
    }
    let unit = unit;
    let mut ctx = Ctx::default();
    let mut out = Out { text: String::new(), chunks: vec![], fns: vec![], audit_fail: vec![] };

    // prelude(s): text before the marker
    let mut tail = String::new();
    for p in unit.preludes.iter() {
        let path = kc_dir.join(p);
        let t = std::fs::read_to_string(&path).unwrap_or_else(|e| fatal(&format!("cannot read prelude {}: {}", path.display(), e)));
        match t.split_once("/*@@WOVEN@@*/") {
            Some((a, b)) => {
                out.text.push_str(a);
                tail = format!("{}{}", b, tail);
            }
            None => out.text.push_str(&t),
        }
        out.text.push('\n');
    }
    out.text.push_str("\n// ===================== woven from the working tree (kweave) =====================\n\n");
    let prelude_len = out.text.len();
    let prelude_text = strip_comments(&out.text);

    for ci in unit.copies.iter() {
        let f = &files[&ci.file];
        if !copy_item(f, ci, &unit, &mut out, &mut ctx) {
            fatal(&format!("lost anchor: copy {} {} not found in {}", ci.kind, ci.name, ci.file));
        }
    }

    // per impl type: the fx-taking woven methods (for `self.method(..)` calls between entry points)
    let mut all_owner_fx: BTreeMap<String, Vec<(String, usize)>> = BTreeMap::new();
    for fname in order.iter() {
        let file = &files[fname];
        let macros = macro_bodies(file);
        for it in file.ast.items.iter() {
            if let syn::Item::Impl(im) = it {
                let owner = match type_ident(&im.self_ty) {
                    Some(o) => o,
                    None => continue,
                };
                let mut add = |f: &syn::ImplItemFn, keys: Vec<String>| {
                    if let Some(c) = find_contract(&unit, fname, &keys) {
                        if c.fx && c.emit_as.is_none() {
                            let ar = f.sig.inputs.iter().filter(|a| matches!(a, syn::FnArg::Typed(_))).count();
                            all_owner_fx.entry(owner.clone()).or_default().push((f.sig.ident.to_string(), ar));
                        }
                    }
                };
                for ii in im.items.iter() {
                    match ii {
                        syn::ImplItem::Fn(f) => add(f, vec![format!("{}::{}", owner, f.sig.ident)]),
                        syn::ImplItem::Macro(m) => {
                            if let Some(mname) = m.mac.path.get_ident().map(|i| i.to_string()) {
                                if let Some(items) = macros.get(&mname) {
                                    for mi in items.iter() {
                                        if let syn::ImplItem::Fn(f) = mi {
                                            add(f, vec![format!("@{}::{}", mname, f.sig.ident), format!("{}::{}", owner, f.sig.ident)]);
                                        }
                                    }
                                }
                            }
                        }
                        _ => {}
                    }
                }
            }
        }
    }
    ctx.owner_fx = all_owner_fx.clone();
    // every other top-level `const` of the unit's source files is copied too, so that a function which starts
    // to use a (new) constant is still decided instead of failing to compile
    // likewise a top-level `type` alias, `enum` or `struct` that neither a `copy` directive nor a prelude defines is copied
    // when the woven text refers to it (a new field of a new type, an alias introduced in a signature); done after weaving
    let mut late: Vec<CopyItem> = vec![];
    {
        let already: BTreeSet<String> = unit.copies.iter().map(|c| c.name.clone()).collect();
        let prelude_defines = |n: &str| -> bool {
            ["struct ", "enum ", "type ", "const ", "trait "].iter().any(|kw| {
                let pat = format!("{}{}", kw, n);
                prelude_text.match_indices(&pat).any(|(k, _)| {
                    !prelude_text[k + pat.len()..].chars().next().map(|c| c.is_alphanumeric() || c == '_').unwrap_or(false)
                })
            })
        };
        let mut extra: Vec<CopyItem> = vec![];
        for fname in order.iter() {
            for it in files[fname].ast.items.iter() {
                let (kind, n) = match it {
                    syn::Item::Const(c) => ("const", c.ident.to_string()),
                    syn::Item::Type(c) => ("type", c.ident.to_string()),
                    syn::Item::Enum(c) => ("enum", c.ident.to_string()),
                    syn::Item::Struct(c) => ("struct", c.ident.to_string()),
                    _ => continue,
                };
                if already.contains(&n) || extra.iter().any(|e| e.name == n) || late.iter().any(|e| e.name == n) {
                    continue;
                }
                let ci = CopyItem { file: fname.clone(), kind: kind.into(), name: n.clone(), derive: None };
                if kind == "const" {
                    extra.push(ci);
                } else if !prelude_defines(&n) {
                    late.push(ci);
                }
            }
        }
        for ci in extra.iter() {
            copy_item(&files[&ci.file], ci, &unit, &mut out, &mut ctx);
        }
    }
    let mut used: BTreeSet<usize> = BTreeSet::new();
    let mut uncontracted: Vec<serde_json::Value> = vec![];
    for fname in order.iter() {
        let file = &files[fname];
        if !unit.fns.iter().any(|c| &c.file == fname) {
            continue;
        }
        let macros = macro_bodies(file);
        for it in file.ast.items.iter() {
            match it {
                syn::Item::Fn(f) => {
                    let keys = vec![format!("::{}", f.sig.ident)];
                    if let Some(c) = find_contract(&unit, fname, &keys) {
                        used.insert(c.line);
                        if args.only.as_ref().map(|o| !keys[0].contains(o.as_str())).unwrap_or(false) {
                            continue;
                        }
                        weave_fn(file, &unit, &mut ctx, &mut out, keys[0].clone(), c, &f.attrs, &f.sig, &f.block, &BTreeMap::new(), false, args.vacuity, "", &[], args.localise);
                    } else {
                        uncontracted.push(serde_json::json!({"func": keys[0], "file": fname, "src_line": line_of(&file.text, lo(f.sig.span()))}));
                    }
                }
                syn::Item::Impl(im) => {
                    let owner = match type_ident(&im.self_ty) {
                        Some(o) => o,
                        None => continue,
                    };
                    let is_trait = im.trait_.is_some();
                    let trait_name = im.trait_.as_ref().and_then(|(_, p, _)| p.segments.last().map(|s| s.ident.to_string())).unwrap_or_default();
                    let mut assoc = BTreeMap::new();
                    for ii in im.items.iter() {
                        if let syn::ImplItem::Type(t) = ii {
                            assoc.insert(t.ident.to_string(), file.text[lo(t.ty.span())..hi(t.ty.span())].to_string());
                        }
                    }
                    // collect the fns of this impl (own and macro-expanded)
                    let mut fns: Vec<(String, &syn::ImplItemFn, Vec<String>)> = vec![];
                    for ii in im.items.iter() {
                        match ii {
                            syn::ImplItem::Fn(f) => {
                                let mut keys = vec![format!("{}::{}", owner, f.sig.ident)];
                                if is_trait {
                                    keys.push(format!("{}@{}::{}", owner, trait_name, f.sig.ident));
                                }
                                fns.push((format!("{}::{}", owner, f.sig.ident), f, keys));
                            }
                            syn::ImplItem::Macro(m) => {
                                if let Some(mname) = m.mac.path.get_ident().map(|i| i.to_string()) {
                                    if let Some(items) = macros.get(&mname) {
                                        for mi in items.iter() {
                                            if let syn::ImplItem::Fn(f) = mi {
                                                let keys = vec![format!("@{}::{}", mname, f.sig.ident), format!("{}::{}", owner, f.sig.ident)];
                                                fns.push((format!("{}::{}", owner, f.sig.ident), f, keys));
                                            }
                                        }
                                    }
                                }
                            }
                            _ => {}
                        }
                    }
                    let any = fns.iter().any(|(_, _, keys)| find_contract(&unit, fname, keys).is_some());
                    if !any {
                        for (label, f, _) in fns.iter() {
                            if ["Debug", "Display", "Error"].contains(&trait_name.as_str()) {
                                continue;
                            }
                            uncontracted.push(serde_json::json!({"func": label, "file": fname, "src_line": line_of(&file.text, lo(f.sig.span()))}));
                        }
                        continue;
                    }
                    // impl header: `impl<generics> SelfTy [where]`
                    let g = &im.generics;
                    let gtxt = if g.params.is_empty() { String::new() } else { file.text[lo(g.lt_token.unwrap().span())..hi(g.gt_token.unwrap().span())].to_string() };
                    let sty = file.text[lo(im.self_ty.span())..hi(im.self_ty.span())].to_string();
                    let wh = g.where_clause.as_ref().map(|w| format!(" {}", &file.text[lo(w.span())..hi(w.span())])).unwrap_or_default();
                    out.text.push_str(&cfg_attrs(&im.attrs, &file.text));
                    out.text.push_str(&format!("// from /repo/src/{} line {}{}\n", fname, line_of(&file.text, lo(im.impl_token.span())), if is_trait { format!(" (X2: `impl {} for` emitted as inherent impl)", trait_name) } else { String::new() }));
                    out.text.push_str(&format!("impl{} {}{} {{\n", gtxt, sty, wh));
                    let self_fx: Vec<(String, usize)> = all_owner_fx.get(&owner).cloned().unwrap_or_default();
                    for (label, f, keys) in fns.iter() {
                        if let Some(c) = find_contract(&unit, fname, keys) {
                            used.insert(c.line);
                            if args.only.as_ref().map(|o| !label.contains(o.as_str())).unwrap_or(false) {
                                continue;
                            }
                            weave_fn(file, &unit, &mut ctx, &mut out, label.clone(), c, &f.attrs, &f.sig, &f.block, &assoc, is_trait, args.vacuity, "    ", &self_fx, args.localise);
                        } else {
                            uncontracted.push(serde_json::json!({"func": label, "file": fname, "src_line": line_of(&file.text, lo(f.sig.span()))}));
                        }
                    }
                    out.text.push_str("}\n\n");
                }
                _ => {}
            }
        }
    }
    // X5-style textual shape obligations
    for (fname, cl) in unit.require_texts.iter() {
        let p = format!("{}/src/{}", args.repo, fname);
        let text = std::fs::read_to_string(&p).unwrap_or_else(|e| fatal(&format!("cannot read {}: {}", p, e)));
        let sq = |s: &str| -> String { strip_comments(s).chars().filter(|c| !c.is_whitespace()).collect() };
        let ok = sq(&text).contains(&sq(&cl.text));
        out.fns.push(serde_json::json!({"func": format!("{} (text shape)", fname), "file": fname, "src_line": 1, "src_end_line": 1, "woven": false, "shape": cl.text, "shape_ok": ok}));
        ctx.obligations.push(Obligation { idx: ctx.obligations.len(), id: cl.id.clone(), props: cl.props.clone(), kind: if ok { "shape-ok".into() } else { "shape-failed".into() },
            func: format!("{} (text shape)", fname), src_file: fname.clone(), text: format!("source must contain `{}`", cl.text) });
    }
    for c in unit.fns.iter() {
        if !used.contains(&c.line) {
            fatal(&format!("lost anchor: contract at line {} ({:?} in {}) matches no function in the working tree", c.line, c.keys, c.file));
        }
    }
    loop {
        let body = strip_comments(&out.text[prelude_len..]);
        let is_ident = |c: char| c.is_alphanumeric() || c == '_';
        let k = late.iter().position(|ci| {
            body.match_indices(ci.name.as_str()).any(|(i, _)| {
                !body[..i].chars().next_back().map(is_ident).unwrap_or(false) && !body[i + ci.name.len()..].chars().next().map(is_ident).unwrap_or(false)
            })
        });
        match k {
            Some(k) => {
                let ci = late.remove(k);
                copy_item(&files[&ci.file], &ci, &unit, &mut out, &mut ctx);
            }
            None => break,
        }
    }
    out.text.push_str(&tail);

    // line maps
    let mut ob_lines: BTreeMap<usize, Vec<(usize, usize)>> = BTreeMap::new();
    {
        let t = &out.text;
        let mut pos = 0;
        while let Some(i) = t[pos..].find("/*@ob:") {
            let s = pos + i;
            let close = s + t[s..].find("*/").unwrap();
            let idx: usize = t[s + 6..close].parse().unwrap();
            let e = close + t[close..].find("/*@eo*/").unwrap_or(0);
            ob_lines.entry(idx).or_default().push((line_of(t, s), line_of(t, e)));
            pos = close;
        }
    }
    // woven line -> source (file, line)
    let nlines = out.text.lines().count() + 1;
    let mut line_src: Vec<Option<(String, usize)>> = vec![None; nlines + 2];
    {
        let mut line_starts = vec![0usize];
        for (i, b) in out.text.bytes().enumerate() {
            if b == b'\n' {
                line_starts.push(i + 1);
            }
        }
        for (os, ol, fname, ss) in out.chunks.iter() {
            let src = &files[fname].text;
            // for every line touched by this chunk
            let mut off = 0;
            while off < *ol {
                let o = os + off;
                let l = match line_starts.binary_search(&o) {
                    Ok(k) => k + 1,
                    Err(k) => k,
                };
                if l < line_src.len() && line_src[l].is_none() {
                    // skip chunks that are only whitespace on this line
                    let line_end = if l < line_starts.len() { line_starts[l] } else { out.text.len() };
                    let seg_end = (os + ol).min(line_end);
                    if out.text[o..seg_end].trim().is_empty() {
                        off += seg_end - o;
                        if seg_end == o {
                            off += 1;
                        }
                        continue;
                    }
                    let lead = out.text[o..seg_end].len() - out.text[o..seg_end].trim_start().len();
                    line_src[l] = Some((fname.clone(), line_of(src, ss + off + lead)));
                }
                let line_end = if l < line_starts.len() { line_starts[l] } else { out.text.len() };
                let next = line_end.max(o + 1);
                off += next - o;
            }
        }
    }
    let obligations: Vec<serde_json::Value> = ctx
        .obligations
        .iter()
        .map(|o| {
            let sites = ob_lines.get(&o.idx).cloned().unwrap_or_default();
            let (a, b) = sites.first().cloned().unwrap_or((0, 0));
            let sj: Vec<serde_json::Value> = sites.iter().map(|(x, y)| serde_json::json!([x, y])).collect();
            serde_json::json!({"idx": o.idx, "id": o.id, "props": o.props, "kind": o.kind, "func": o.func, "file": o.src_file, "text": o.text, "out_line": a, "out_end_line": b, "sites": sj})
        })
        .collect();
    let rewrites: Vec<serde_json::Value> = ctx
        .rewrites
        .iter()
        .map(|r| serde_json::json!({"rule": r.rule, "func": r.func, "file": r.src_file, "src_line": r.src_line, "before": r.before, "after": r.after}))
        .collect();
    let line_src_json: Vec<serde_json::Value> = line_src
        .iter()
        .map(|x| match x {
            Some((f, l)) => serde_json::json!([f, l]),
            None => serde_json::Value::Null,
        })
        .collect();
    let map = serde_json::json!({
        "unit": unit.name,
        "vacuity": args.vacuity,
        "functions": out.fns,
        "uncontracted": uncontracted,
        "obligations": obligations,
        "rewrites": rewrites,
        "ghost_insertions": ctx.ghost_insertions,
        "bytes_verbatim": ctx.bytes_verbatim,
        "audit_failures": out.audit_fail,
        "line_src": line_src_json,
    });
    std::fs::write(&args.out, &out.text).unwrap_or_else(|e| fatal(&format!("write {}: {}", args.out, e)));
    std::fs::write(&args.map, serde_json::to_string(&map).unwrap()).unwrap_or_else(|e| fatal(&format!("write {}: {}", args.map, e)));
    if !out.audit_fail.is_empty() {
        for a in out.audit_fail.iter() {
            eprintln!("KWEAVE-AUDIT-FAIL: {}", a);
        }
        std::process::exit(2);
    }
    println!("kweave: unit {} : {} functions/items, {} obligations, {} ghost insertions, {} rewrites, {} bytes verbatim", unit.name, map["functions"].as_array().unwrap().len(), ctx.obligations.len(), ctx.ghost_insertions, ctx.rewrites.len(), ctx.bytes_verbatim);
}
