//! Core of kweave: span-based extraction of real function text with ghost
//! insertions (G1-G8) and declared exec rewrites (X1-X7).

use crate::contract::*;
use proc_macro2::Span;
use std::collections::{BTreeMap, HashSet};
use syn::spanned::Spanned;
use syn::visit::Visit;

pub struct SrcFile {
    pub name: String,
    pub text: String,
    pub ast: syn::File,
}

pub fn fatal(msg: &str) -> ! {
    eprintln!("KWEAVE-ERROR: {}", msg);
    std::process::exit(2);
}

pub fn lo(s: Span) -> usize {
    s.byte_range().start
}
pub fn hi(s: Span) -> usize {
    s.byte_range().end
}

#[derive(Clone, Debug)]
pub enum EK {
    Ghost,
    Rewrite(&'static str),
}

#[derive(Clone, Debug)]
pub struct Edit {
    pub start: usize,
    pub end: usize,
    pub text: String,
    pub kind: EK,
    pub seq: usize,
    /// lower sorts first among edits at the same position
    pub prio: i32,
}

#[derive(Clone, Debug)]
pub struct Obligation {
    pub idx: usize,
    pub id: String,
    pub props: Vec<String>,
    pub kind: String, // requires | ensures | invariant | exit-assert | ...
    pub func: String, // Owner::name as emitted
    pub src_file: String,
    pub text: String,
}

#[derive(Clone, Debug)]
pub struct RewriteRec {
    pub rule: String,
    pub func: String,
    pub src_file: String,
    pub src_line: usize,
    pub before: String,
    pub after: String,
}

#[derive(Default)]
pub struct Ctx {
    /// (owner type, function) whose first parameter `*const Self` was read as `&Self` (X11)
    pub x11_fns: Vec<(String, String)>,
    /// per handle type: the woven entry points that take the ghost log (name, number of non-self arguments)
    pub owner_fx: BTreeMap<String, Vec<(String, usize)>>,
    pub obligations: Vec<Obligation>,
    pub rewrites: Vec<RewriteRec>,
    pub ghost_insertions: usize,
    pub bytes_verbatim: usize,
}

/// A chunk of output that was copied verbatim from the source.
#[derive(Clone, Debug)]
pub struct Chunk {
    pub out_start: usize,
    pub out_len: usize,
    pub src_start: usize,
}

pub struct Woven {
    pub text: String,
    pub chunks: Vec<Chunk>,
}

pub fn line_of(text: &str, off: usize) -> usize {
    text.as_bytes()[..off.min(text.len())].iter().filter(|b| **b == b'\n').count() + 1
}

fn hex(s: &str) -> String {
    s.bytes().map(|b| format!("{:02x}", b)).collect()
}

/// Apply edits to src[start..end]; produce marked text + chunk map.
pub fn apply_edits(src: &str, start: usize, end: usize, edits: &mut Vec<Edit>) -> Woven {
    // at one position: zero-length insertions first (by priority), then the edit that replaces a range
    edits.sort_by(|a, b| (a.start, (a.end > a.start) as u8, a.prio, a.seq).cmp(&(b.start, (b.end > b.start) as u8, b.prio, b.seq)));
    let mut out = String::new();
    let mut chunks = vec![];
    let mut pos = start;
    for e in edits.iter() {
        if e.start < pos {
            if e.start == e.end && e.start >= start {
                // insertion inside an already replaced range: not allowed
            }
            fatal(&format!(
                "overlapping edits at byte {} (line {}): `{}`",
                e.start,
                line_of(src, e.start),
                e.text.chars().take(60).collect::<String>()
            ));
        }
        if e.end > end {
            fatal("edit outside function span");
        }
        if e.start > pos {
            chunks.push(Chunk { out_start: out.len(), out_len: e.start - pos, src_start: pos });
            out.push_str(&src[pos..e.start]);
        }
        match &e.kind {
            EK::Ghost => {
                out.push_str("/*+k*/");
                out.push_str(&e.text);
                out.push_str("/*-k*/");
            }
            EK::Rewrite(rule) => {
                out.push_str(&format!("/*~{}:{}*/", rule, hex(&src[e.start..e.end])));
                out.push_str(&e.text);
                out.push_str("/*~~*/");
            }
        }
        pos = e.end;
    }
    if pos < end {
        chunks.push(Chunk { out_start: out.len(), out_len: end - pos, src_start: pos });
        out.push_str(&src[pos..end]);
    }
    Woven { text: out, chunks }
}

/// Fidelity audit: strip ghost insertions, undo rewrites, compare with the source span.
pub fn audit(woven: &str, src: &str) -> Result<(), String> {
    let mut out = String::new();
    let b = woven;
    let mut i = 0;
    while i < b.len() {
        if b[i..].starts_with("/*+k*/") {
            match b[i..].find("/*-k*/") {
                Some(j) => i += j + 6,
                None => return Err("unterminated ghost marker".into()),
            }
        } else if b[i..].starts_with("/*~") {
            let close = b[i..].find("*/").ok_or("bad rewrite marker")?;
            let head = &b[i + 3..i + close];
            let (_rule, hx) = head.split_once(':').ok_or("bad rewrite head")?;
            let bytes: Vec<u8> = (0..hx.len() / 2).map(|k| u8::from_str_radix(&hx[2 * k..2 * k + 2], 16).unwrap()).collect();
            out.push_str(std::str::from_utf8(&bytes).map_err(|_| "utf8")?);
            let endm = b[i..].find("/*~~*/").ok_or("unterminated rewrite marker")?;
            i += endm + 6;
        } else {
            let ch = b[i..].chars().next().unwrap();
            out.push(ch);
            i += ch.len_utf8();
        }
    }
    if out == src {
        Ok(())
    } else {
        // find first difference
        let k = out.bytes().zip(src.bytes()).position(|(a, b)| a != b).unwrap_or(out.len().min(src.len()));
        Err(format!("audit mismatch at byte {}: woven `{}` vs source `{}`", k, &out[k..(k + 40).min(out.len())], &src[k..(k + 40).min(src.len())]))
    }
}

fn type_base_ident(t: &syn::Type) -> String {
    match t {
        syn::Type::Path(p) => p.path.segments.last().map(|s| s.ident.to_string()).unwrap_or_default(),
        syn::Type::Reference(r) => type_base_ident(&r.elem),
        _ => String::new(),
    }
}

fn squeeze(s: &str) -> String {
    s.chars().filter(|c| !c.is_whitespace()).collect()
}

/// squeeze + explicit generic arguments (`::<..>`) removed: `Signal::<T>::new_sync(` and `Signal::new_sync(` are one shape
fn squeeze_nt(s: &str) -> String {
    let t: Vec<char> = squeeze(s).chars().collect();
    let mut out = String::new();
    let mut i = 0;
    while i < t.len() {
        if t[i] == ':' && i + 2 < t.len() && t[i + 1] == ':' && t[i + 2] == '<' {
            let mut depth = 0i32;
            let mut j = i + 2;
            while j < t.len() {
                if t[j] == '<' {
                    depth += 1;
                } else if t[j] == '>' && (j == 0 || t[j - 1] != '-') {
                    depth -= 1;
                    if depth == 0 {
                        break;
                    }
                }
                j += 1;
            }
            i = j + 1;
            continue;
        }
        out.push(t[i]);
        i += 1;
    }
    out
}

fn expr_mentions_ident(e: &syn::Expr, name: &str) -> bool {
    struct V<'a> {
        name: &'a str,
        found: bool,
    }
    impl<'a, 'ast> Visit<'ast> for V<'a> {
        fn visit_ident(&mut self, i: &'ast proc_macro2::Ident) {
            if i == self.name {
                self.found = true;
            }
        }
        fn visit_macro(&mut self, m: &'ast syn::Macro) {
            for t in m.tokens.clone() {
                if let proc_macro2::TokenTree::Ident(i) = t {
                    if i == self.name {
                        self.found = true;
                    }
                }
            }
        }
    }
    let mut v = V { name, found: false };
    v.visit_expr(e);
    v.found
}

fn call_name(e: &syn::Expr) -> Option<String> {
    if let syn::Expr::Call(c) = e {
        if let syn::Expr::Path(p) = &*c.func {
            return p.path.segments.last().map(|s| s.ident.to_string());
        }
    }
    None
}

/// An obligation active in a lexical scope, to be discharged (text inserted) at every exit.
#[derive(Clone)]
struct ScopeOb {
    text: String,
    /// identifier whose mention in a tail expression forces the X7 let-wrap
    watch: Option<String>,
    /// the obligation must run after the tail expression has been evaluated (temporary guard)
    force_wrap: bool,
}

pub struct FnWeaver<'a> {
    pub src: &'a str,
    pub file: &'a str,
    pub func: String,
    pub c: &'a FnContract,
    pub unit: &'a Unit,
    pub ctx: &'a mut Ctx,
    pub edits: Vec<Edit>,
    seq: usize,
    loop_ord: usize,
    closure_ord: usize,
    guards: Vec<String>,
    params: Vec<String>,
    params_by_value: Vec<bool>,
    ret_name: String,
    binds: BTreeMap<String, String>,
    bind_counts: BTreeMap<usize, usize>,
    call_counts: BTreeMap<String, usize>,
    has_fx: bool,
    vacuity: bool,
    pub saw_plain_lend: bool,
    localise: bool,
    /// (name, arity) of the woven fx-taking methods of the impl type this function belongs to
    pub self_fx: Vec<(String, usize)>,
    pub param_types: Vec<(String, String)>,
    pub len_aliases: BTreeMap<String, String>,
    pub bound_loads: Vec<usize>,
    /// parameters of this function whose raw self pointer type was read as `&Self` (X11)
    pub x11_params: Vec<String>,
}

impl<'a> FnWeaver<'a> {
    fn ghost(&mut self, at: usize, text: String, prio: i32) {
        self.seq += 1;
        self.ctx.ghost_insertions += 1;
        self.edits.push(Edit { start: at, end: at, text, kind: EK::Ghost, seq: self.seq, prio });
    }
    fn rewrite(&mut self, rule: &'static str, start: usize, end: usize, text: String) {
        self.seq += 1;
        self.ctx.rewrites.push(RewriteRec {
            rule: rule.to_string(),
            func: self.func.clone(),
            src_file: self.file.to_string(),
            src_line: line_of(self.src, start),
            before: self.src[start..end].to_string(),
            after: text.clone(),
        });
        self.edits.push(Edit { start, end, text, kind: EK::Rewrite(rule), seq: self.seq, prio: 100 });
    }

    pub fn set_vacuity(&mut self) {
        self.vacuity = true;
    }
    pub fn set_localise(&mut self) {
        self.localise = true;
    }

    fn subst(&self, text: &str) -> String {
        let mut t = text.to_string();
        // longest placeholders first
        for (k, v) in self.binds.iter().rev() {
            t = t.replace(k.as_str(), v);
        }
        for (i, g) in self.guards.iter().enumerate().rev() {
            t = t.replace(&format!("$guard{}", i + 1), g);
        }
        for (i, p) in self.params.iter().enumerate().rev() {
            t = t.replace(&format!("${}", i + 1), p);
        }
        t = t.replace("$ret", &self.ret_name);
        t
    }

    fn new_ob(&mut self, cl: &Clause, kind: &str) -> usize {
        let idx = self.ctx.obligations.len();
        self.ctx.obligations.push(Obligation {
            idx,
            id: cl.id.clone(),
            props: cl.props.clone(),
            kind: kind.to_string(),
            func: self.func.clone(),
            src_file: self.file.to_string(),
            text: cl.text.clone(),
        });
        idx
    }

    fn clause_text(&mut self, cl: &Clause, kind: &str) -> String {
        let idx = self.new_ob(cl, kind);
        format!("/*@ob:{}*/ ({}) /*@eo*/", idx, self.subst(&cl.text))
    }

    // ---------------------------------------------------------------- signature (G1, X2, X3)
    pub fn weave_sig(&mut self, sig: &syn::Signature, assoc: &BTreeMap<String, String>, is_trait_impl: bool) {
        // parameter names
        for a in sig.inputs.iter() {
            if let syn::FnArg::Typed(pt) = a {
                if let syn::Pat::Ident(pi) = &*pt.pat {
                    self.params.push(pi.ident.to_string());
                    // the handle type of a parameter (`r: &'a AsyncReceiver<T>` -> AsyncReceiver), for entry-point calls on it
                    let base = match &*pt.ty {
                        syn::Type::Reference(r) => type_base_ident(&r.elem),
                        t => type_base_ident(t),
                    };
                    self.param_types.push((pi.ident.to_string(), base));
                } else {
                    self.params.push("_".into());
                }
                self.params_by_value.push(!matches!(&*pt.ty, syn::Type::Reference(_)));
            }
        }
        // X11: `this: *const Self` -> `this: &Self` (signal.rs passes the signal by raw pointer; `(*this).f` reads the
        // same through a reference, which the verifier can follow). Drops: the raw-pointer-ness (aliasing, lifetime) -- R3.
        for a in sig.inputs.iter() {
            if let syn::FnArg::Typed(pt) = a {
                let mut ty = squeeze(&self.src[lo(pt.ty.span())..hi(pt.ty.span())]);
                // a type alias of the raw self pointer (`type SignalPtr<T> = *const Signal<T>`)
                let base: String = ty.chars().take_while(|c| c.is_alphanumeric() || *c == '_').collect();
                if let Some(rhs) = self.unit.aliases.get(&base) {
                    ty = rhs.clone();
                }
                let owner = self.func.split("::").next().unwrap_or("").to_string();
                let self_ptr = ty == "*constSelf" || (!owner.is_empty() && (ty == format!("*const{}", owner) || ty.starts_with(&format!("*const{}<", owner))));
                if self_ptr {
                    self.rewrite("X11", lo(pt.ty.span()), hi(pt.ty.span()), "&Self".into());
                    if let syn::Pat::Ident(pi) = &*pt.pat {
                        self.x11_params.push(pi.ident.to_string());
                    }
                    let fname = self.func.rsplit("::").next().unwrap_or("").to_string();
                    self.ctx.x11_fns.push((owner.clone(), fname));
                }
            }
        }
        // X3: self: Pin<&mut Self>  ->  &mut self
        if let Some(syn::FnArg::Receiver(r)) = sig.inputs.first() {
            if r.colon_token.is_some() {
                let ty = squeeze(&self.src[lo(r.ty.span())..hi(r.ty.span())]);
                if ty == "Pin<&mutSelf>" {
                    self.rewrite("X3", lo(r.span()), hi(r.span()), "&mut self".into());
                } else {
                    fatal(&format!("{}: unsupported receiver type `{}`", self.func, ty));
                }
            }
        }
        // X2: rename (drop -> drop__impl)
        if let Some(n) = &self.c.emit_as {
            self.rewrite("X2", lo(sig.ident.span()), hi(sig.ident.span()), n.clone());
        }
        // X8: the added ghost parameter makes lifetime elision ambiguous for free functions that
        // return a borrow: name the elided lifetime `'_` as `'a__` (no run-time meaning)
        if self.c.fx && sig.receiver().is_none() {
            struct L(Vec<(usize, usize)>);
            impl<'ast> Visit<'ast> for L {
                fn visit_lifetime(&mut self, l: &'ast syn::Lifetime) {
                    if l.ident == "_" {
                        self.0.push((lo(l.span()), hi(l.span())));
                    }
                }
            }
            let mut l = L(vec![]);
            l.visit_return_type(&sig.output);
            if !l.0.is_empty() {
                for a in sig.inputs.iter() {
                    l.visit_fn_arg(a);
                }
                for (a, b) in l.0 {
                    self.rewrite("X8", a, b, "'a__".into());
                }
                match sig.generics.lt_token {
                    Some(lt) => self.rewrite("X8", hi(lt.span()), hi(lt.span()), "'a__, ".into()),
                    None => self.rewrite("X8", hi(sig.ident.span()), hi(sig.ident.span()), "<'a__>".into()),
                }
            }
        }
        // G1: fx parameter
        if self.c.fx {
            self.has_fx = true;
            let close = lo(sig.paren_token.span.close());
            let need_comma = !sig.inputs.is_empty() && !sig.inputs.trailing_punct();
            let t = format!("{}Tracked(fx): Tracked<&mut Fx<T>>", if need_comma { ", " } else { "" });
            self.ghost(close, t, 0);
        }
        // return binder
        let mut sig_end = hi(sig.paren_token.span.close());
        if let syn::ReturnType::Type(_, ty) = &sig.output {
            let s = lo(ty.span());
            let e = hi(ty.span());
            sig_end = e;
            // X2: Self::Output / Self::Item
            if is_trait_impl {
                struct P<'b> {
                    hits: Vec<(usize, usize, String)>,
                    assoc: &'b BTreeMap<String, String>,
                }
                impl<'b, 'ast> Visit<'ast> for P<'b> {
                    fn visit_type_path(&mut self, tp: &'ast syn::TypePath) {
                        if tp.qself.is_none() && tp.path.segments.len() == 2 && tp.path.segments[0].ident == "Self" {
                            let n = tp.path.segments[1].ident.to_string();
                            if let Some(t) = self.assoc.get(&n) {
                                self.hits.push((lo(tp.span()), hi(tp.span()), t.clone()));
                                return;
                            }
                        }
                        syn::visit::visit_type_path(self, tp);
                    }
                }
                let mut p = P { hits: vec![], assoc };
                p.visit_type(ty);
                for (a, b, t) in p.hits {
                    self.rewrite("X2", a, b, t);
                }
            }
            self.ghost(s, format!("({}: ", self.ret_name), 0);
            self.ghost(e, ")".into(), 5);
        }
        if let Some(w) = &sig.generics.where_clause {
            sig_end = sig_end.max(hi(w.span()));
        }
        // G1: requires / ensures
        let mut spec = String::new();
        let c = self.c;
        if !c.requires.is_empty() {
            spec.push_str("\n    requires\n");
            for cl in c.requires.iter() {
                let t = self.clause_text(cl, "requires");
                spec.push_str(&format!("        {},\n", t));
            }
        }
        if !c.ensures.is_empty() {
            spec.push_str("\n    ensures\n");
            for cl in c.ensures.iter() {
                let t = self.clause_text(cl, "ensures");
                spec.push_str(&format!("        {},\n", t));
            }
        }
        if let Some(d) = &c.decreases {
            spec.push_str(&format!("\n    decreases {}\n", self.subst(d)));
        }
        if !spec.is_empty() {
            self.ghost(sig_end, spec, 9);
        }
    }

    // ---------------------------------------------------------------- body
    pub fn weave_body(&mut self, block: &syn::Block) {
        // pre-pass: bindings (guards, binds) so placeholders are known everywhere
        self.collect_bindings(block);
        // X3: `let this = unsafe { self.get_unchecked_mut() };`
        for st in block.stmts.iter() {
            if let syn::Stmt::Local(l) = st {
                if let Some(init) = &l.init {
                    let t = squeeze(&self.src[lo(init.expr.span())..hi(init.expr.span())]);
                    if t == "unsafe{self.get_unchecked_mut()}" {
                        self.rewrite("X3", lo(init.expr.span()), hi(init.expr.span()), "self".into());
                    }
                }
            }
        }
        // hints: body-start
        let hints = self.c.hints.clone();
        for h in hints.iter() {
            if h.anchor == "body-start" {
                let t = self.subst(&h.text);
                self.ghost(hi(block.brace_token.span.open()), format!(" {} ", t), 0);
            }
        }
        if self.c.once_true.is_some() {
            self.ghost(hi(block.brace_token.span.open()), " let ghost mut once__ = false; ".into(), -8);
        }
        if self.c.no_wait_after_final.is_some() {
            self.ghost(hi(block.brace_token.span.open()), " let ghost mut final_seen__ = false; ".into(), -8);
        }
        // pass A: calls, loops
        let mut a = PassA { w: self };
        a.visit_block(block);
        if self.saw_plain_lend {
            let body = &self.src[lo(block.span())..hi(block.span())];
            if body.contains("forget") || body.contains("ManuallyDrop") {
                fatal(&format!("{}: unsupported ownership idiom: a plain local is lent through KanalPtr::new_from together with mem::forget / ManuallyDrop (O-slot-manual cannot decide it)", self.func));
            }
        }
        // pass B: scopes / exits
        // exit obligations run innermost-scope first and, at function level, in the order
        // exit-ghost, localised ensures, vacuity assert (the list is emitted in reverse)
        let mut pre = vec![];
        if self.vacuity {
            let cl = Clause { id: "VACUITY".into(), props: vec![], text: "false".into() };
            let t = self.clause_text(&cl, "vacuity");
            // evaluated after the exit's value (an exit expression may contain inner exits)
            pre.push(ScopeOb { text: format!("\n assert({});\n", t), watch: None, force_wrap: true });
        }
        if self.localise {
            // §3.8: every `ensures` clause is also asserted at each exit, so a failure names the exit
            let ens = self.c.ensures.clone();
            // by-value parameters may be shadowed in the body: ghost aliases taken at the start
            let mut alias = String::new();
            for (k, p) in self.params.clone().iter().enumerate() {
                if self.params_by_value[k] && p != "_" {
                    alias.push_str(&format!(" let ghost p{}__ = {}; ", k + 1, p));
                }
            }
            if !alias.is_empty() {
                self.ghost(hi(block.brace_token.span.open()), alias, -9);
            }
            for cl in ens.iter() {
                let mut c2 = cl.clone();
                let uses_ret = c2.text.contains("$ret");
                c2.text = c2.text.replace("$ret", "$exitval");
                for k in (0..self.params.len()).rev() {
                    if self.params_by_value[k] && self.params[k] != "_" {
                        c2.text = c2.text.replace(&format!("${}", k + 1), &format!("p{}__", k + 1));
                    }
                }
                let mut t = self.clause_text(&c2, "ensures@exit").replace("$exitval", "r__");
                // inside the body a `&mut` parameter denotes its current value
                loop {
                    match t.find("final(") {
                        Some(k) => {
                            let rest = &t[k + 6..];
                            let close = rest.find(')').unwrap_or(0);
                            let inner = rest[..close].to_string();
                            if inner.chars().all(|ch| ch.is_alphanumeric() || ch == '_') {
                                // X3: after `let this = self;` the current value of the receiver is `*this`
                                let cur = if inner == "self" { self.binds.get("$this").cloned().unwrap_or(inner.clone()) } else { inner.clone() };
                                t = format!("{}{}{}", &t[..k], cur, &rest[close + 1..]);
                            } else {
                                t = format!("{}FINAL__({}", &t[..k], rest);
                            }
                        }
                        None => break,
                    }
                }
                let t = t.replace("FINAL__(", "final(");
                pre.push(ScopeOb { text: format!("\n assert({});\n", t), watch: None, force_wrap: uses_ret });
            }
        }
        for g in self.c.exit_ghost.clone().iter() {
            let t = self.subst(g);
            pre.push(ScopeOb { text: format!(" {} ", t), watch: None, force_wrap: false });
        }
        self.walk_block(block, &vec![], &vec![], pre, true);
        // all binds must have been found
        for b in self.c.binds.iter() {
            if !self.binds.contains_key(&b.var) && !(b.optional && self.saw_plain_lend) && !b.soft {
                fatal(&format!("{}: lost anchor: bind {} ({} {}) not found in {}", self.func, b.var, b.how, b.pat, self.file));
            }
        }
        for (n, _) in self.c.loops.iter() {
            if *n > self.loop_ord {
                // the loop the contract speaks about is gone: its invariants have nothing to attach to, the
                // function-level ensures still have to be proved on the new body
                eprintln!("KWEAVE-NOTE: {}: loop {} of the contract not found (function has {} loops); loop clauses dropped", self.func, n, self.loop_ord);
            }
        }
    }

    fn is_guard_call(&self, e: &syn::Expr) -> bool {
        call_name(e).map(|n| self.unit.guard_fns.contains(&n)).unwrap_or(false)
    }
    fn is_try_guard_call(&self, e: &syn::Expr) -> bool {
        call_name(e).map(|n| self.unit.try_guard_fns.contains(&n)).unwrap_or(false)
    }

    fn collect_bindings(&mut self, block: &syn::Block) {
        struct B<'x, 'a> {
            w: &'x mut FnWeaver<'a>,
        }
        impl<'x, 'a, 'ast> Visit<'ast> for B<'x, 'a> {
            fn visit_local(&mut self, l: &'ast syn::Local) {
                if let Some(init) = &l.init {
                    // `let Some(mut g) = try_acquire_internal(..) else { .. };`
                    if init.diverge.is_some() && self.w.is_try_guard_call(&init.expr) {
                        if let Some(n) = some_pat_ident(&l.pat) {
                            self.w.guards.push(n);
                        }
                    }
                    let name = match &l.pat {
                        syn::Pat::Ident(pi) => Some(pi.ident.to_string()),
                        syn::Pat::Type(pt) => match &*pt.pat {
                            syn::Pat::Ident(pi) => Some(pi.ident.to_string()),
                            _ => None,
                        },
                        _ => None,
                    };
                    if let Some(name) = name {
                        // `let n = C.len();` : n is a cached length of C (for index loops `while i < n`)
                        if let syn::Expr::MethodCall(m) = &*init.expr {
                            if m.method == "len" && m.args.is_empty() {
                                let c = self.w.src[lo(m.receiver.span())..hi(m.receiver.span())].to_string();
                                self.w.len_aliases.insert(name.clone(), c);
                            }
                        }
                        if self.w.is_guard_call(&init.expr) {
                            self.w.guards.push(name.clone());
                        }
                        let txt = squeeze_nt(&self.w.src[lo(init.expr.span())..hi(init.expr.span())]);
                        let binds = self.w.c.binds.clone();
                        for (bi, b) in binds.iter().enumerate() {
                            let m = match b.how.as_str() {
                                "let-init-prefix" => txt.starts_with(&b.pat),
                                "let-init-exact" => txt == b.pat,
                                "let-init-suffix" => txt.ends_with(&b.pat),
                                "let-init-contains" => txt.contains(&b.pat),
                                _ => fatal(&format!("unknown bind kind {}", b.how)),
                            };
                            if m {
                                let cnt = self.w.bind_counts.entry(bi).or_insert(0);
                                *cnt += 1;
                                if *cnt == b.nth {
                                    self.w.binds.insert(b.var.clone(), name.clone());
                                }
                            }
                        }
                    }
                }
                syn::visit::visit_local(self, l);
            }
            fn visit_expr_if(&mut self, e: &'ast syn::ExprIf) {
                if let syn::Expr::Let(el) = &*e.cond {
                    if self.w.is_try_guard_call(&el.expr) {
                        if let Some(n) = some_pat_ident(&el.pat) {
                            self.w.guards.push(n);
                        }
                    }
                }
                syn::visit::visit_expr_if(self, e);
            }
        }
        let mut b = B { w: self };
        b.visit_block(block);
    }

    fn guard_release_text(&self, g: &str) -> String {
        format!(" proof {{ fx.cs = set_post(fx.cs, {}.view()); fx.held = false; }} ", g)
    }

    /// Insert `obs` so that they execute immediately before the `return` expression `r`.
    fn place_at_return(&mut self, r: &syn::ExprReturn, obs: &Vec<ScopeOb>, stmt_pos: bool) {
        if obs.is_empty() {
            return;
        }
        let mut needs_wrap = r.expr.is_some() && obs.iter().any(|o| o.force_wrap);
        if let Some(e) = &r.expr {
            for o in obs.iter() {
                if let Some(w) = &o.watch {
                    if expr_mentions_ident(e, w) {
                        needs_wrap = true;
                    }
                }
            }
        }
        let text: String = format!("/*@x:{}*/{}", line_of(self.src, lo(r.span())), obs.iter().rev().map(|o| o.text.clone()).collect::<String>());
        let s = lo(r.span());
        let e_ = hi(r.span());
        if needs_wrap {
            let inner = r.expr.as_ref().unwrap();
            let (is_, ie) = (lo(inner.span()), hi(inner.span()));
            // X7: { let r__ = E; <obs> return r__ }
            self.rewrite("X7", s, is_, "{ let r__ = ".into());
            self.seq += 1;
            self.ghost(ie, format!("; {} return r__ }}", text), 0);
        } else if stmt_pos {
            self.ghost(s, text, 0);
        } else {
            self.ghost(s, format!("{{ {}", text), 0);
            self.ghost(e_, " }".into(), 5);
        }
    }

    /// Tail expression `e` of a block: place `obs` on every path that falls out of it.
    fn place_tail(&mut self, e: &syn::Expr, obs: &Vec<ScopeOb>, active: &Vec<ScopeOb>, in_block_tail: bool) {
        if obs.is_empty() {
            self.walk_expr(e, active);
            return;
        }
        match e {
            syn::Expr::If(ei) if chain_has_final_else(ei) => {
                let mut cur = ei;
                loop {
                    let pre = self.if_cond(cur, active);
                    self.walk_block(&cur.then_branch, active, obs, pre, true);
                    match cur.else_branch.as_ref().map(|(_, b)| &**b) {
                        Some(syn::Expr::If(n)) => cur = n,
                        Some(syn::Expr::Block(b)) => {
                            self.walk_block(&b.block, active, obs, vec![], true);
                            break;
                        }
                        _ => fatal("unexpected else branch"),
                    }
                }
            }
            syn::Expr::Match(em) => {
                self.walk_expr(&em.expr, active);
                for arm in em.arms.iter() {
                    if let Some((_, g)) = &arm.guard {
                        self.walk_expr(g, active);
                    }
                    match &*arm.body {
                        syn::Expr::Block(b) if b.label.is_none() => self.walk_block(&b.block, active, obs, vec![], true),
                        other => self.place_tail(other, obs, active, false),
                    }
                }
            }
            syn::Expr::Block(b) if b.label.is_none() => self.walk_block(&b.block, active, obs, vec![], true),
            syn::Expr::Unsafe(u) => self.walk_block(&u.block, active, obs, vec![], true),
            syn::Expr::Return(r) => {
                // value flows out through `return`; obligations of enclosing scopes too
                let mut all = active.clone();
                // `active` already contains obs of this block (callers pass active incl. local)
                let _ = &mut all;
                if let Some(inner) = &r.expr {
                    self.walk_expr(inner, active);
                }
                self.place_at_return(r, active, in_block_tail);
            }
            syn::Expr::If(_) | syn::Expr::While(_) | syn::Expr::ForLoop(_) => {
                // unit typed: record after it
                self.walk_expr(e, active);
                let text: String = format!("/*@x:{}*/{}", line_of(self.src, hi(e.span()).saturating_sub(1)), obs.iter().rev().map(|o| o.text.clone()).collect::<String>());
                self.ghost(hi(e.span()), text, 0);
            }
            syn::Expr::Loop(_) => {
                // `loop` without break never falls through (checked: no break with scope obs)
                self.walk_expr(e, active);
            }
            syn::Expr::Macro(m) if ["panic", "unreachable", "unimplemented"].iter().any(|n| m.mac.path.is_ident(n)) => {}
            _ => {
                self.walk_expr(e, active);
                let text: String = format!("/*@x:{}*/{}", line_of(self.src, lo(e.span())), obs.iter().rev().map(|o| o.text.clone()).collect::<String>());
                let mut wrap = obs.iter().any(|o| o.force_wrap);
                for o in obs.iter() {
                    if let Some(w) = &o.watch {
                        if expr_mentions_ident(e, w) {
                            wrap = true;
                        }
                    }
                }
                let (s, en) = (lo(e.span()), hi(e.span()));
                // a `#[cfg]`-ed tail expression cannot be bound by `let`
                let mut text = text;
                if self.src[s..en].trim_start().starts_with("#[") {
                    wrap = false;
                    // obligations that speak about the exit's value cannot be placed here
                    text = format!("/*@x:{}*/{}", line_of(self.src, lo(e.span())), obs.iter().rev().filter(|o| !o.force_wrap).map(|o| o.text.clone()).collect::<String>());
                }
                if wrap && in_block_tail {
                    // X7 (tail of a block):  E   ->   let r__ = E; <obs> r__
                    self.rewrite("X7", s, s, "let r__ = ".into());
                    self.ghost(en, format!("; {} r__", text), 0);
                } else if wrap {
                    // X7:  E   ->   { let r__ = E; <obs> r__ }
                    self.rewrite("X7", s, s, "{ let r__ = ".into());
                    self.ghost(en, format!("; {} r__ }}", text), 0);
                } else if in_block_tail {
                    self.ghost(s, text, 0);
                } else {
                    self.ghost(s, format!("{{ {}", text), 0);
                    self.ghost(en, " }".into(), 5);
                }
            }
        }
    }

    /// Handles the condition of an `if`; returns scope obligations started by `if let Some(g) = try_acquire(..)`.
    fn if_cond(&mut self, ei: &syn::ExprIf, active: &Vec<ScopeOb>) -> Vec<ScopeOb> {
        if let syn::Expr::Let(el) = &*ei.cond {
            self.walk_expr(&el.expr, active);
            if self.is_try_guard_call(&el.expr) {
                if let Some(n) = some_pat_ident(&el.pat) {
                    return vec![ScopeOb { text: self.guard_release_text(&n), watch: Some(n), force_wrap: false }];
                }
            }
            vec![]
        } else {
            self.walk_expr(&ei.cond, active);
            if self.has_fx && temp_guard_in(&ei.cond, &self.unit.guard_fns) {
                // the temporary guard of an `if` condition dies before either branch runs
                let t = " proof { fx.held = false; } ".to_string();
                self.ghost(hi(ei.then_branch.brace_token.span.open()), t.clone(), -5);
                match ei.else_branch.as_ref().map(|(_, b)| &**b) {
                    Some(syn::Expr::Block(b)) => self.ghost(hi(b.block.brace_token.span.open()), t, -5),
                    Some(_) => fatal(&format!("{}: temporary guard in the condition of an if / else-if chain is not supported", self.func)),
                    None => self.ghost(hi(ei.span()), t, 7),
                }
            }
            vec![]
        }
    }

    fn walk_expr(&mut self, e: &syn::Expr, active: &Vec<ScopeOb>) {
        if self.has_fx {
            self.wrap_lazy_rhs_guards(e);
        }
        let mut v = PassB { w: self, active: active.clone() };
        v.visit_expr(e);
    }

    /// The second operand of `&&` / `||` is a temporary scope of its own: a temporary guard created there dies at
    /// the end of that operand, before anything to its right runs.  X7-wrap such an operand and release there.
    fn wrap_lazy_rhs_guards(&mut self, e: &syn::Expr) {
        fn lazy(op: &syn::BinOp) -> bool {
            matches!(op, syn::BinOp::And(_) | syn::BinOp::Or(_))
        }
        /// guard calls in `e` that are not inside the right operand of a nested lazy boolean
        fn guard_outside_lazy_rhs(e: &syn::Expr, g: &[String]) -> bool {
            match e {
                syn::Expr::Binary(b) if lazy(&b.op) => guard_outside_lazy_rhs(&b.left, g),
                syn::Expr::Paren(p) => guard_outside_lazy_rhs(&p.expr, g),
                syn::Expr::Unary(u) => guard_outside_lazy_rhs(&u.expr, g),
                _ => temp_guard_in(e, g),
            }
        }
        match e {
            syn::Expr::Binary(b) if lazy(&b.op) => {
                self.wrap_lazy_rhs_guards(&b.left);
                self.wrap_lazy_rhs_guards(&b.right);
                if guard_outside_lazy_rhs(&b.right, &self.unit.guard_fns) {
                    let (s, en) = (lo(b.right.span()), hi(b.right.span()));
                    self.rewrite("X7", s, s, "{ let r__ = ".into());
                    self.ghost(en, "; proof { fx.held = false; } r__ }".into(), 4);
                }
            }
            syn::Expr::Paren(p) => self.wrap_lazy_rhs_guards(&p.expr),
            syn::Expr::Unary(u) => self.wrap_lazy_rhs_guards(&u.expr),
            _ => {}
        }
    }

    fn local_scope_obs(&mut self, l: &syn::Local) -> Vec<ScopeOb> {
        let mut out = vec![];
        let name = match &l.pat {
            syn::Pat::Ident(pi) => Some(pi.ident.to_string()),
            syn::Pat::Type(pt) => match &*pt.pat {
                syn::Pat::Ident(pi) => Some(pi.ident.to_string()),
                _ => None,
            },
            _ => None,
        };
        if let (Some(init), true) = (&l.init, self.has_fx) {
            if init.diverge.is_some() && self.is_try_guard_call(&init.expr) {
                if let Some(n) = some_pat_ident(&l.pat) {
                    out.push(ScopeOb { text: self.guard_release_text(&n), watch: Some(n), force_wrap: false });
                    return out;
                }
            }
        }
        let (name, init) = match (name, &l.init) {
            (Some(n), Some(i)) => (n, i),
            _ => return out,
        };
        if self.is_guard_call(&init.expr) && self.has_fx {
            out.push(ScopeOb { text: self.guard_release_text(&name), watch: Some(name.clone()), force_wrap: false });
        }
        let eas = if self.vacuity { vec![] } else { self.c.exit_asserts.clone() };
        for ea in eas.iter() {
            let unbound = self.c.binds.iter().any(|b| b.optional && !self.binds.contains_key(&b.var) && ea.clause.text.contains(b.var.as_str()));
            if unbound {
                continue;
            }
            if self.binds.get(&ea.var) == Some(&name) && self.bind_matches_local(&ea.var, l) {
                let t = self.clause_text(&ea.clause, "exit-assert").replace("$exitval", "r__");
                out.push(ScopeOb { text: format!("\n assert({});\n", t), watch: None, force_wrap: ea.on_ret });
            }
        }
        // hints: after-let $x
        let hints = self.c.hints.clone();
        for h in hints.iter() {
            if let Some(v) = h.anchor.strip_prefix("after-let ") {
                let v = v.trim();
                let is_guard = v.strip_prefix("$guard").and_then(|n| n.parse::<usize>().ok()).map(|n| self.guards.get(n - 1) == Some(&name) && self.is_guard_call(&init.expr)).unwrap_or(false);
                if is_guard || (self.binds.get(v) == Some(&name) && self.bind_matches_local(v, l)) {
                    let t = self.subst(&h.text);
                    self.ghost(hi(l.span()), format!(" {} ", t), 0);
                }
            }
        }
        out
    }

    fn bind_matches_local(&self, var: &str, l: &syn::Local) -> bool {
        // the bind was resolved in collect_bindings to the nth matching let; re-check the pattern here
        let b = match self.c.binds.iter().find(|b| b.var == var) {
            Some(b) => b,
            None => return false,
        };
        let init = match &l.init {
            Some(i) => i,
            None => return false,
        };
        let txt = squeeze_nt(&self.src[lo(init.expr.span())..hi(init.expr.span())]);
        match b.how.as_str() {
            "let-init-prefix" => txt.starts_with(&b.pat),
                                "let-init-exact" => txt == b.pat,
            "let-init-suffix" => txt.ends_with(&b.pat),
            "let-init-contains" => txt.contains(&b.pat),
            _ => false,
        }
    }

    /// `active`: obligations of enclosing scopes (discharged at `return`).
    /// `tail_obs`: obligations whose scope ends where this block's value flows out.
    /// `pre`: obligations started by the construct that owns this block (if-let guard).
    fn walk_block(&mut self, b: &syn::Block, active: &Vec<ScopeOb>, tail_obs: &Vec<ScopeOb>, pre: Vec<ScopeOb>, _in_tail: bool) {
        let mut local: Vec<ScopeOb> = pre;
        let n = b.stmts.len();
        let mut placed_tail = false;
        // guards moved into `drop(..)` earlier in this block: they are dead, nothing is recorded for them any more
        let mut killed: Vec<String> = vec![];
        let alive = |v: &Vec<ScopeOb>, killed: &Vec<String>| -> Vec<ScopeOb> {
            v.iter().filter(|o| !(o.watch.is_some() && killed.contains(o.watch.as_ref().unwrap()))).cloned().collect()
        };
        for (i, st) in b.stmts.iter().enumerate() {
            let mut act = alive(active, &killed);
            act.extend(alive(&local, &killed));
            let last = i + 1 == n;
            match st {
                syn::Stmt::Local(l) => {
                    if let Some(init) = &l.init {
                        self.walk_expr(&init.expr, &act);
                        if let Some((_, d)) = &init.diverge {
                            self.walk_expr(d, &act);
                        }
                    }
                    let started = self.local_scope_obs(l);
                    local.extend(started);
                    if let Some(init) = &l.init {
                        if self.has_fx && !self.is_guard_call(&init.expr) && temp_guard_in(&init.expr, &self.unit.guard_fns) {
                            self.ghost(hi(l.span()), " proof { fx.held = false; } ".into(), 7);
                        }
                    }
                }
                syn::Stmt::Expr(e, semi) => {
                    if self.has_fx && semi.is_some() && temp_guard_in(e, &self.unit.guard_fns) {
                        self.ghost(hi(st.span()), " proof { fx.held = false; } ".into(), 7);
                    }
                    if last && semi.is_none() {
                        let mut obs = alive(tail_obs, &killed);
                        obs.extend(alive(&local, &killed));
                        if self.has_fx && temp_guard_in(e, &self.unit.guard_fns) {
                            obs.push(ScopeOb { text: " proof { fx.held = false; } ".into(), watch: None, force_wrap: true });
                        }
                        // at a tail `return` all active obligations apply
                        self.place_tail(e, &obs, &act, true);
                        placed_tail = true;
                    } else if let syn::Expr::Return(r) = e {
                        if let Some(inner) = &r.expr {
                            self.walk_expr(inner, &act);
                        }
                        self.place_at_return(r, &act, true);
                    } else if let (syn::Expr::Call(c), true) = (e, semi.is_some()) {
                        // drop(G): record the post state right before the guard is moved into drop
                        let mut handled = false;
                        if call_name(e).as_deref() == Some("drop") && c.args.len() == 1 {
                            if let syn::Expr::Path(p) = &c.args[0] {
                                if let Some(id) = p.path.get_ident() {
                                    let id = id.to_string();
                                    if self.guards.contains(&id) && self.has_fx {
                                        let t = self.guard_release_text(&id);
                                        self.ghost(lo(e.span()), t, 0);
                                        handled = true;
                                        killed.push(id.clone());
                                    }
                                }
                            }
                        }
                        let _ = handled;
                        self.walk_expr(e, &act);
                    } else {
                        self.walk_expr(e, &act);
                    }
                }
                syn::Stmt::Item(_) => {}
                syn::Stmt::Macro(_) => {}
            }
        }
        if !placed_tail {
            let mut obs = alive(tail_obs, &killed);
            obs.extend(alive(&local, &killed));
            if !obs.is_empty() {
                // does the block end in a diverging statement (return / panic)? then nothing falls out
                let diverges = match b.stmts.last() {
                    Some(syn::Stmt::Expr(syn::Expr::Return(_), _)) => true,
                    Some(syn::Stmt::Macro(m)) => ["panic", "unreachable", "unimplemented"].iter().any(|n| m.mac.path.is_ident(n)),
                    Some(syn::Stmt::Expr(syn::Expr::Macro(m), _)) => ["panic", "unreachable", "unimplemented"].iter().any(|n| m.mac.path.is_ident(n)),
                    _ => false,
                };
                if !diverges {
                    let text: String = format!("/*@x:{}*/{}", line_of(self.src, lo(b.brace_token.span.close())), obs.iter().rev().map(|o| o.text.clone()).collect::<String>());
                    self.ghost(lo(b.brace_token.span.close()), text, 0);
                }
            }
        }
    }
}

/// Does `e` contain a call of a guard function whose temporary lives to the end of the enclosing
/// statement (i.e. not inside a nested block / closure / `if` / loop, which are their own drop scopes)?
fn temp_guard_in(e: &syn::Expr, guard_fns: &[String]) -> bool {
    struct V<'a> {
        g: &'a [String],
        found: bool,
    }
    impl<'a, 'ast> Visit<'ast> for V<'a> {
        fn visit_expr_call(&mut self, c: &'ast syn::ExprCall) {
            if let syn::Expr::Path(p) = &*c.func {
                if let Some(seg) = p.path.segments.last() {
                    if self.g.iter().any(|g| seg.ident == g) {
                        self.found = true;
                    }
                }
            }
            syn::visit::visit_expr_call(self, c);
        }
        fn visit_block(&mut self, _: &'ast syn::Block) {}
        fn visit_expr_closure(&mut self, _: &'ast syn::ExprClosure) {}
        fn visit_expr_if(&mut self, _: &'ast syn::ExprIf) {}
        fn visit_expr_while(&mut self, _: &'ast syn::ExprWhile) {}
        fn visit_expr_loop(&mut self, _: &'ast syn::ExprLoop) {}
        fn visit_expr_for_loop(&mut self, _: &'ast syn::ExprForLoop) {}
        fn visit_arm(&mut self, _: &'ast syn::Arm) {}
    }
    let mut v = V { g: guard_fns, found: false };
    v.visit_expr(e);
    v.found
}


/// is `e` exactly `NAME()` or `!NAME()` ?  returns Some(negated)
fn is_plain_call_of(e: &syn::Expr, name: &str) -> Option<bool> {
    match e {
        syn::Expr::Call(c) if c.args.is_empty() => {
            if let syn::Expr::Path(p) = &*c.func {
                if p.path.is_ident(name) {
                    return Some(false);
                }
            }
            None
        }
        syn::Expr::Unary(u) if matches!(u.op, syn::UnOp::Not(_)) => is_plain_call_of(&u.expr, name).map(|n| !n),
        syn::Expr::Paren(p) => is_plain_call_of(&p.expr, name),
        _ => None,
    }
}

fn chain_has_final_else(ei: &syn::ExprIf) -> bool {
    match ei.else_branch.as_ref().map(|(_, b)| &**b) {
        None => false,
        Some(syn::Expr::If(n)) => chain_has_final_else(n),
        Some(_) => true,
    }
}

fn some_pat_ident(p: &syn::Pat) -> Option<String> {
    if let syn::Pat::TupleStruct(ts) = p {
        if ts.path.segments.last().map(|s| s.ident == "Some").unwrap_or(false) && ts.elems.len() == 1 {
            if let syn::Pat::Ident(pi) = &ts.elems[0] {
                return Some(pi.ident.to_string());
            }
        }
    }
    None
}

// -------------------------------------------------------------------- pass A: calls + loops (G4, G5, G6, X1)
struct PassA<'x, 'a> {
    w: &'x mut FnWeaver<'a>,
}

impl<'x, 'a> PassA<'x, 'a> {
    fn fx_arg(&mut self, name: &str, nargs: usize, close: usize, trailing: bool) -> bool {
        self.fx_arg2(name, nargs, close, trailing, false)
    }
    fn fx_arg2(&mut self, name: &str, nargs: usize, close: usize, trailing: bool, on_self: bool) -> bool {
        self.fx_arg3(name, nargs, nargs, close, trailing, on_self)
    }
    /// `arity`: number of non-self arguments the callee is declared with; `nargs`: arguments written at this call
    fn fx_arg3(&mut self, name: &str, arity: usize, nargs: usize, close: usize, trailing: bool, on_self: bool) -> bool {
        if !self.w.has_fx {
            return false;
        }
        let self_fx = on_self && self.w.self_fx.iter().any(|(n, a)| n == name && *a == arity);
        if self_fx || self.w.unit.fxcalls.iter().any(|(n, a)| n == name && *a == arity) {
            let t = if nargs > 0 && !trailing { ", Tracked(fx)" } else { "Tracked(fx)" };
            self.w.ghost(close, t.to_string(), 0);
            return true;
        }
        false
    }
    fn call_hints(&mut self, name: &str, start: usize, end: usize) {
        let cnt = {
            let c = self.w.call_counts.entry(name.to_string()).or_insert(0);
            *c += 1;
            *c
        };
        if let Some((_, _, names, cl)) = self.w.c.no_wait_after_final.clone() {
            if names.iter().any(|n| n == name) {
                let t = self.w.clause_text(&cl, "before-call");
                let k = self.w.src[..start].rfind(|ch| ch == ';' || ch == '{' || ch == '}').map(|k| k + 1).unwrap_or(start);
                self.w.ghost(k, format!("\n assert({});\n", t), 8);
            }
        }
        for (names, cl) in self.w.c.before_each.clone().iter() {
            if names.iter().any(|n| n == name) {
                let t = self.w.clause_text(cl, "before-call");
                let k = self.w.src[..start].rfind(|ch| ch == ';' || ch == '{' || ch == '}').map(|k| k + 1).unwrap_or(start);
                self.w.ghost(k, format!("\n assert({});\n", t), 8);
            }
        }
        let hints = self.w.c.hints.clone();
        for h in hints.iter() {
            let ws: Vec<&str> = h.anchor.split_whitespace().collect();
            if ws.len() == 3 && ws[1] == name && ws[2].parse::<usize>().ok() == Some(cnt) {
                let t = self.w.subst(&h.text);
                if let Some(ph) = unresolved_placeholder(&t) {
                    eprintln!("KWEAVE-NOTE: {}: hint `{}` dropped: placeholder {} has no binding in the current text", self.w.func, h.anchor, ph);
                    continue;
                }
                match ws[0] {
                    "before-call" => self.w.ghost(start, format!(" {} ", t), -1),
                    "after-call" => self.w.ghost(end, format!(" {} ", t), 8),
                    "before-stmt" => {
                        // before the statement that contains the call: after the previous `;`, `{` or `}`
                        let k = self.w.src[..start].rfind(|ch| ch == ';' || ch == '{' || ch == '}').map(|k| k + 1).unwrap_or(start);
                        self.w.ghost(k, format!(" {} ", t), 8)
                    }
                    "after-stmt" => {
                        // after the `;` that ends the statement containing the call
                        match self.w.src[end..].find(';') {
                            Some(k) => self.w.ghost(end + k + 1, format!(" {} ", t), 8),
                            None => fatal("after-stmt hint: no `;` after the call"),
                        }
                    }
                    _ => {}
                }
            }
        }
    }
    /// a loop contract is written for one loop shape: if a `for` / `while` loop now leaves early (`break` / `continue`
    /// of its own) and the contract does not say so (`loop n early-exit`), the proof has to be redone -- exit 2, like
    /// X1's refusal, never an alarm
    fn check_loop_shape(&mut self, ord: usize, body: &syn::Block) {
        if let Some(ls) = self.w.c.loops.get(&ord) {
            if !ls.clauses.is_empty() && !ls.early_exit && contains_break_continue(body) {
                fatal(&format!("{}: the loop contract of loop {} does not fit: the loop now leaves early (break/continue); undecided", self.w.func, ord));
            }
        }
    }
    fn loop_spec(&mut self, ord: usize) -> String {
        let ls = match self.w.c.loops.get(&ord) {
            Some(l) => l.clone(),
            None => return String::new(),
        };
        let mut out = String::new();
        let mut last_kw = String::new();
        for (kw, cl) in ls.clauses.iter() {
            if let Some(ph) = unresolved_placeholder(&self.w.subst(&cl.text)) {
                eprintln!("KWEAVE-NOTE: {}: loop {} {} clause dropped: placeholder {} has no binding in the current text", self.w.func, ord, kw, ph);
                continue;
            }
            if kw == "decreases" {
                out.push_str(&format!("\n    decreases {}\n", self.w.subst(&cl.text)));
                last_kw.clear();
                continue;
            }
            if *kw != last_kw {
                out.push_str(&format!("\n    {}\n", kw));
                last_kw = kw.clone();
            }
            let t = self.w.clause_text(cl, &format!("loop-{}", kw));
            out.push_str(&format!("        {},\n", t));
        }
        out
    }
}

/// `$idx` / `$elem` / `$coll` are bound by the loop shape (X1, or an index `while`); a contract clause that still
/// carries one after substitution has lost its anchor
fn unresolved_placeholder(t: &str) -> Option<String> {
    if let Some(p) = ["$idx", "$elem", "$coll"].into_iter().find(|p| t.contains(p)) {
        return Some(p.to_string());
    }
    // a soft bind (`bind~`) that found no local leaves its `$name` in the text
    let b = t.as_bytes();
    let mut i = 0;
    while i + 1 < b.len() {
        if b[i] == b'$' && (b[i + 1] as char).is_ascii_lowercase() {
            let mut j = i + 1;
            while j < b.len() && ((b[j] as char).is_ascii_alphanumeric() || b[j] == b'_') {
                j += 1;
            }
            let name = &t[i..j];
            if !matches!(name, "$ret" | "$exitval" | "$this") && !name[1..].starts_with("guard") {
                return Some(name.to_string());
            }
            i = j;
        } else {
            i += 1;
        }
    }
    None
}

fn is_simple_operand(e: &syn::Expr) -> bool {
    match e {
        syn::Expr::Path(_) | syn::Expr::Lit(_) => true,
        syn::Expr::Field(f) => is_simple_operand(&f.base),
        syn::Expr::Paren(p) => is_simple_operand(&p.expr),
        syn::Expr::MethodCall(m) => m.method == "len" && m.args.is_empty() && is_simple_operand(&m.receiver),
        _ => false,
    }
}

/// `while I < C.len()` or `while I < N` with `let N = C.len();` earlier: (I, C)
fn index_loop_head(cond: &syn::Expr, src: &str, len_aliases: &BTreeMap<String, String>) -> Option<(String, String)> {
    if let syn::Expr::Binary(b) = cond {
        if matches!(b.op, syn::BinOp::Lt(_)) {
            if let (syn::Expr::Path(l), syn::Expr::Path(r)) = (&*b.left, &*b.right) {
                if let (Some(i), Some(n)) = (l.path.get_ident(), r.path.get_ident()) {
                    if let Some(c) = len_aliases.get(&n.to_string()) {
                        return Some((i.to_string(), c.clone()));
                    }
                }
            }
            if let (syn::Expr::Path(l), syn::Expr::MethodCall(m)) = (&*b.left, &*b.right) {
                if m.method == "len" && m.args.is_empty() {
                    if let Some(i) = l.path.get_ident() {
                        return Some((i.to_string(), src[lo(m.receiver.span())..hi(m.receiver.span())].to_string()));
                    }
                }
            }
        }
    }
    None
}

fn contains_break_continue(b: &syn::Block) -> bool {
    struct V(bool);
    impl<'ast> Visit<'ast> for V {
        fn visit_expr_break(&mut self, _: &'ast syn::ExprBreak) {
            self.0 = true;
        }
        fn visit_expr_continue(&mut self, _: &'ast syn::ExprContinue) {
            self.0 = true;
        }
        fn visit_expr_closure(&mut self, _: &'ast syn::ExprClosure) {}
        // an unlabelled break / continue inside a nested loop belongs to that loop
        fn visit_expr_while(&mut self, _: &'ast syn::ExprWhile) {}
        fn visit_expr_loop(&mut self, _: &'ast syn::ExprLoop) {}
        fn visit_expr_for_loop(&mut self, _: &'ast syn::ExprForLoop) {}
    }
    let mut v = V(false);
    v.visit_block(b);
    v.0
}

fn closure_body_leaves(e: &syn::Expr) -> bool {
    struct V(bool);
    impl<'ast> Visit<'ast> for V {
        fn visit_expr_break(&mut self, _: &'ast syn::ExprBreak) {
            self.0 = true;
        }
        fn visit_expr_continue(&mut self, _: &'ast syn::ExprContinue) {
            self.0 = true;
        }
        fn visit_expr_return(&mut self, _: &'ast syn::ExprReturn) {
            self.0 = true;
        }
        fn visit_expr_try(&mut self, _: &'ast syn::ExprTry) {
            self.0 = true;
        }
        fn visit_expr_closure(&mut self, _: &'ast syn::ExprClosure) {}
    }
    let mut v = V(false);
    v.visit_expr(e);
    v.0
}

impl<'x, 'a, 'ast> Visit<'ast> for PassA<'x, 'a> {
    fn visit_expr_method_call(&mut self, m: &'ast syn::ExprMethodCall) {
        let name = m.method.to_string();
        // no-wait-after-final: a load of the watched field that is not bound by a `let` is let-bound in place (X7) so
        // that the ghost flag can follow it
        if let Some((field, bound, _, _)) = self.w.c.no_wait_after_final.clone() {
            let on_field = matches!(&*m.receiver, syn::Expr::Field(f) if matches!(&f.member, syn::Member::Named(id) if *id == field));
            if name == "load" && on_field && !self.w.bound_loads.contains(&lo(m.span())) {
                let orig = self.w.src[lo(m.span())..hi(m.span())].to_string();
                let t = format!("({{ let l__ = {}; proof {{ if l__ < {} {{ final_seen__ = true; }} }} l__ }})", orig, bound);
                self.w.rewrite("X7", lo(m.span()), hi(m.span()), t);
                return;
            }
        }
        // X15: `E.iter().for_each(|x| B)` -> `for x in E.iter() { B }` (std defines Iterator::for_each as exactly this fold
        // over next(); the closure spelling is unreadable for Verus). Refused when the closure body holds a `return` or `?`
        // (they leave the closure, not the function) or a break/continue; the result counts as a loop of the function.
        if name == "for_each" && m.args.len() == 1 {
            if let (syn::Expr::MethodCall(m0), syn::Expr::Closure(cl)) = (&*m.receiver, &m.args[0]) {
                let simple_pat = cl.inputs.len() == 1 && matches!(&cl.inputs[0], syn::Pat::Ident(pi) if pi.by_ref.is_none() && pi.subpat.is_none());
                if m0.method == "iter" && m0.args.is_empty() && simple_pat && cl.capture.is_none() && cl.asyncness.is_none() && matches!(cl.output, syn::ReturnType::Default) {
                    if closure_body_leaves(&cl.body) {
                        fatal(&format!("{}: X15 refused: the for_each closure body contains return / ? / break / continue; undecided", self.w.func));
                    }
                    self.w.loop_ord += 1;
                    let ord = self.w.loop_ord;
                    let spec = self.loop_spec(ord);
                    let it = self.w.c.loops.get(&ord).and_then(|ls| ls.iter_name.clone()).map(|n| format!("{}: ", n)).unwrap_or_default();
                    let pat = self.w.src[lo(cl.inputs[0].span())..hi(cl.inputs[0].span())].to_string();
                    let recv = self.w.src[lo(m.receiver.span())..hi(m.receiver.span())].to_string();
                    self.w.rewrite("X15", lo(m.span()), lo(cl.body.span()), format!("for {} in {}{} {} {{ ", pat, it, recv, spec));
                    self.w.rewrite("X15", hi(cl.body.span()), hi(m.span()), " }".into());
                    self.visit_expr(&cl.body);
                    return;
                }
            }
        }
        let on_self = matches!(&*m.receiver, syn::Expr::Path(p) if p.path.is_ident("self"));
        if !self.fx_arg2(&name, m.args.len(), lo(m.paren_token.span.close()), m.args.trailing_punct(), on_self) && self.w.has_fx {
            // an entry point called on a parameter whose declared type is a handle type (`receiver.clone()`)
            if let syn::Expr::Path(p) = &*m.receiver {
                if let Some(id) = p.path.get_ident() {
                    let id = id.to_string();
                    let owner = self.w.param_types.iter().find(|(n, _)| *n == id).map(|(_, t)| t.clone());
                    if let Some(owner) = owner {
                        let hit = self.w.ctx.owner_fx.get(&owner).map(|v| v.iter().any(|(n, a)| *n == name && *a == m.args.len())).unwrap_or(false);
                        if hit {
                            let t = if !m.args.is_empty() && !m.args.trailing_punct() { ", Tracked(fx)" } else { "Tracked(fx)" };
                            self.w.ghost(lo(m.paren_token.span.close()), t.to_string(), 0);
                        }
                    }
                }
            }
        }
        self.call_hints(&name, lo(m.span()), hi(m.span()));
        syn::visit::visit_expr_method_call(self, m);
    }
    fn visit_expr_call(&mut self, c: &'ast syn::ExprCall) {
        if let syn::Expr::Path(p) = &*c.func {
            if let Some(seg) = p.path.segments.last() {
                let name = seg.ident.to_string();
                // X9: KanalPtr::new_from(&mut <plain local>) : the implicit `&mut T -> *mut T` coercion is
                // unreadable for Verus; route it through the prelude's `lend_plain_local`, whose result is
                // *not* a manually managed slot (so O-slot-manual decides whether lending it is allowed)
                if seg.ident == "new_from" && c.args.len() == 1 {
                    if let syn::Expr::Reference(r) = &c.args[0] {
                        if r.mutability.is_some() {
                            if let syn::Expr::Path(_) = &*r.expr {
                                let a = &c.args[0];
                                let t = format!("lend_plain_local({})", &self.w.src[lo(a.span())..hi(a.span())]);
                                self.w.rewrite("X9", lo(a.span()), hi(a.span()), t);
                                self.w.saw_plain_lend = true;
                            }
                        }
                    }
                }
                // X11: a raw signal pointer kept in a rewritten field is passed on as a reference
                let mut x11_done = false;
                for a in c.args.iter() {
                    let at: String = self.w.src[lo(a.span())..hi(a.span())].chars().filter(|c| !c.is_whitespace()).collect();
                    if self.w.unit.x11_args.contains(&at) {
                        let t = format!("{}.as_ref()", &self.w.src[lo(a.span())..hi(a.span())]);
                        self.w.rewrite("X11", lo(a.span()), hi(a.span()), t);
                        x11_done = true;
                    }
                }
                // ... and so is any other first argument of a function whose `this: *const Self` was read as `&Self`
                // (a local the pointer was copied into), unless it is itself such a parameter
                if !x11_done && p.path.segments.len() >= 2 && !c.args.is_empty() {
                    let q = p.path.segments[p.path.segments.len() - 2].ident.to_string();
                    if q != "Self" && self.w.ctx.x11_fns.iter().any(|(o, f)| *o == q && *f == name) {
                        let a = &c.args[0];
                        let is_x11_param = matches!(a, syn::Expr::Path(ap) if ap.path.get_ident().map(|i| self.w.x11_params.contains(&i.to_string())).unwrap_or(false));
                        if !is_x11_param {
                            let t = format!("{}.as_ref()", &self.w.src[lo(a.span())..hi(a.span())]);
                            self.w.rewrite("X11", lo(a.span()), hi(a.span()), t);
                        }
                    }
                }
                // X13: core::ptr::drop_in_place(M.as_mut_ptr()) -> M.assume_init_drop()   (std defines assume_init_drop as
                // exactly this; the raw-pointer spelling is unreadable for Verus)
                if seg.ident == "drop_in_place" && c.args.len() == 1 {
                    if let syn::Expr::MethodCall(m) = &c.args[0] {
                        if m.method == "as_mut_ptr" && m.args.is_empty() {
                            let recv = self.w.src[lo(m.receiver.span())..hi(m.receiver.span())].to_string();
                            self.w.rewrite("X13", lo(c.span()), hi(c.span()), format!("{}.assume_init_drop()", recv));
                            return;
                        }
                    }
                }
                // X10: core::ptr::read[::<T>](P) -> raw_ptr_read(P)   (raw-pointer read, unreadable for Verus; the
                // pointer comes from MaybeUninit::as_ptr, whose stand-in specification says what is behind it)
                if seg.ident == "read" && c.args.len() == 1 {
                    let mut ptxt: String = self.w.src[lo(p.span())..hi(p.span())].chars().filter(|c| !c.is_whitespace()).collect();
                    if let Some(k) = ptxt.find("::<") {
                        ptxt.truncate(k);
                    }
                    if ptxt == "core::ptr::read" || ptxt == "ptr::read" || ptxt == "std::ptr::read" {
                        self.w.rewrite("X10", lo(p.span()), hi(p.span()), "raw_ptr_read".into());
                    }
                }
                // X3: Box::pin(E) -> PinBox::new(E)
                let ptxt: String = self.w.src[lo(p.span())..hi(p.span())].chars().filter(|c| !c.is_whitespace()).collect();
                if ptxt == "Box::pin" {
                    self.w.rewrite("X3", lo(p.span()), hi(p.span()), "PinBox::new".into());
                }
                let nseg = p.path.segments.len();
                let qualified = if nseg >= 2 { format!("{}::{}", p.path.segments[nseg - 2].ident, name) } else { name.clone() };
                if !self.fx_arg(&name, c.args.len(), lo(c.paren_token.span.close()), c.args.trailing_punct())
                    && !(nseg >= 2 && self.fx_arg(&qualified, c.args.len(), lo(c.paren_token.span.close()), c.args.trailing_punct()))
                {
                    // fully qualified method call `Type::method(receiver, args..)`: the receiver is written as an argument
                    let n = p.path.segments.len();
                    if n >= 2 && !c.args.is_empty() {
                        let q = p.path.segments[n - 2].ident.to_string();
                        if q.chars().next().map(|ch| ch.is_uppercase()).unwrap_or(false) {
                            let on_self = matches!(&c.args[0], syn::Expr::Path(a) if a.path.is_ident("self"));
                            self.fx_arg3(&name, c.args.len() - 1, c.args.len(), lo(c.paren_token.span.close()), c.args.trailing_punct(), on_self);
                        }
                    }
                }
                self.call_hints(&name, lo(c.span()), hi(c.span()));
            }
        }
        syn::visit::visit_expr_call(self, c);
    }
    fn visit_local(&mut self, l: &'ast syn::Local) {
        if let (Some((field, bound, _, _)), Some(init)) = (self.w.c.no_wait_after_final.clone(), &l.init) {
            if let syn::Expr::MethodCall(m) = &*init.expr {
                let on_field = matches!(&*m.receiver, syn::Expr::Field(f) if matches!(&f.member, syn::Member::Named(id) if *id == field));
                let name = match &l.pat {
                    syn::Pat::Ident(pi) => Some(pi.ident.to_string()),
                    syn::Pat::Type(pt) => match &*pt.pat {
                        syn::Pat::Ident(pi) => Some(pi.ident.to_string()),
                        _ => None,
                    },
                    _ => None,
                };
                if m.method == "load" && on_field {
                    if let Some(v) = name {
                        self.w.ghost(hi(l.semi_token.span()), format!(" proof {{ if {} < {} {{ final_seen__ = true; }} }} ", v, bound), 6);
                        self.w.bound_loads.push(lo(m.span()));
                    }
                }
            }
        }
        syn::visit::visit_local(self, l);
    }
    fn visit_pat_type(&mut self, pt: &'ast syn::PatType) {
        // a declared type rewrite also applies to the type ascription of a local (`let p: *const Signal<T> = self.0;`)
        let ty = squeeze(&self.w.src[lo(pt.ty.span())..hi(pt.ty.span())]);
        for (from, to) in self.w.unit.type_rewrites.clone().iter() {
            if ty == squeeze(from) {
                let rule = if squeeze(from).starts_with("*const") { "X11" } else { "X3" };
                self.w.rewrite(rule, lo(pt.ty.span()), hi(pt.ty.span()), to.clone());
            }
        }
        syn::visit::visit_pat_type(self, pt);
    }
    fn visit_item_const(&mut self, c: &'ast syn::ItemConst) {
        // a function-local constant whose initialiser calls a function cannot be evaluated by the verifier: opaque
        struct HasCall(bool);
        impl<'a2> Visit<'a2> for HasCall {
            fn visit_expr_call(&mut self, _: &'a2 syn::ExprCall) {
                self.0 = true;
            }
            fn visit_expr_method_call(&mut self, _: &'a2 syn::ExprMethodCall) {
                self.0 = true;
            }
        }
        let mut v = HasCall(false);
        v.visit_expr(&c.expr);
        if v.0 {
            self.w.ghost(lo(c.const_token.span()), "#[verifier::external_body] ".into(), 0);
        }
    }
    fn visit_expr_unary(&mut self, u: &'ast syn::ExprUnary) {
        // X11: `*<raw signal pointer field>` -> `*<field>.as_ref()`
        if matches!(u.op, syn::UnOp::Deref(_)) {
            let at: String = self.w.src[lo(u.expr.span())..hi(u.expr.span())].chars().filter(|c| !c.is_whitespace()).collect();
            if self.w.unit.x11_args.contains(&at) {
                let t = format!("{}.as_ref()", &self.w.src[lo(u.expr.span())..hi(u.expr.span())]);
                self.w.rewrite("X11", lo(u.expr.span()), hi(u.expr.span()), t);
            }
        }
        syn::visit::visit_expr_unary(self, u);
    }
    fn visit_expr_assign(&mut self, a: &'ast syn::ExprAssign) {
        // X14: `_ = E;` -> `let _ = E;` (both evaluate E and drop the result at once; Verus has no destructuring assignment)
        if matches!(&*a.left, syn::Expr::Infer(_)) {
            self.w.rewrite("X14", lo(a.left.span()), hi(a.left.span()), "let _".into());
        }
        syn::visit::visit_expr_assign(self, a);
    }
    fn visit_expr_closure(&mut self, c: &'ast syn::ExprClosure) {
        self.w.closure_ord += 1;
        let ord = self.w.closure_ord;
        if let Some((ty, cl)) = self.w.c.closures.get(&ord).cloned() {
            let t = self.w.clause_text(&cl, "closure-ensures");
            let is_block = matches!(&*c.body, syn::Expr::Block(_));
            self.w.ghost(hi(c.or2_token.span()), format!(" -> (r: {}) ensures {}{}", ty, t, if is_block { " " } else { " { " }), 0);
            if !is_block {
                self.w.ghost(hi(c.body.span()), " }".into(), 6);
            }
        }
        syn::visit::visit_expr_closure(self, c);
    }
    fn visit_expr_if(&mut self, e: &'ast syn::ExprIf) {
        if let Some((name, cl)) = self.w.c.once_true.clone() {
            match is_plain_call_of(&e.cond, &name) {
                Some(false) => {
                    // `if cond() { B }`: no call after a true result; B starts knowing the result was true
                    let t = self.w.clause_text(&cl, "once-true");
                    let k = self.w.src[..lo(e.span())].rfind(|ch| ch == ';' || ch == '{' || ch == '}').map(|k| k + 1).unwrap_or(lo(e.span()));
                    self.w.ghost(k, format!("\n assert({});\n", t), 8);
                    self.w.ghost(hi(e.then_branch.brace_token.span.open()), " proof { once__ = true; } ".into(), -7);
                }
                Some(true) => {
                    // `if !cond() { B } [else { C }]`: C runs after a true result; without an else the result is
                    // unknown once control is past the `if`
                    let t = self.w.clause_text(&cl, "once-true");
                    let k = self.w.src[..lo(e.span())].rfind(|ch| ch == ';' || ch == '{' || ch == '}').map(|k| k + 1).unwrap_or(lo(e.span()));
                    self.w.ghost(k, format!("\n assert({});\n", t), 8);
                    match e.else_branch.as_ref().map(|(_, b)| &**b) {
                        Some(syn::Expr::Block(b)) => self.w.ghost(hi(b.block.brace_token.span.open()), " proof { once__ = true; } ".into(), -7),
                        Some(_) => fatal(&format!("{}: once-true: else-if after `if !{}()` is not supported", self.w.func, name)),
                        None => self.w.ghost(hi(e.span()), " proof { once__ = arbitrary(); } ".into(), 6),
                    }
                }
                None => {}
            }
        }
        syn::visit::visit_expr_if(self, e);
    }
    fn visit_expr_while(&mut self, e: &'ast syn::ExprWhile) {
        self.w.loop_ord += 1;
        let ord = self.w.loop_ord;
        self.check_loop_shape(ord, &e.body);
        if let Some((name, cl)) = self.w.c.once_true.clone() {
            match is_plain_call_of(&e.cond, &name) {
                Some(true) => {
                    // `while !cond() { B }`: the loop is left exactly when a call returned true
                    let t = self.w.clause_text(&cl, "once-true");
                    let k = self.w.src[..lo(e.span())].rfind(|ch| ch == ';' || ch == '{' || ch == '}').map(|k| k + 1).unwrap_or(lo(e.span()));
                    self.w.ghost(k, format!("\n assert({});\n", t), 8);
                    self.w.ghost(hi(e.span()), " proof { once__ = true; } ".into(), 6);
                }
                Some(false) => fatal(&format!("{}: once-true: `while {}()` is not supported", self.w.func, name)),
                None => {}
            }
        }
        // the hand-written form of X1's result: `while i < C.len() { .. C[i] .. i += 1; }`
        if !self.w.binds.contains_key("$idx") {
            if let Some((i, c)) = index_loop_head(&e.cond, self.w.src, &self.w.len_aliases) {
                self.w.binds.insert("$idx".into(), i);
                self.w.binds.insert("$coll".into(), c);
            }
        }
        let mut spec = self.loop_spec(ord);
        // a counting loop `while a < b` without a declared measure gets the obvious one (`b - a`); if it is wrong the
        // verifier says so
        let may_not_terminate = self.w.c.attrs.iter().any(|a| a.contains("exec_allows_no_decreases_clause"));
        if !spec.contains("decreases") && !may_not_terminate {
            if let syn::Expr::Binary(b) = &*e.cond {
                if matches!(b.op, syn::BinOp::Lt(_)) && !matches!(&*b.left, syn::Expr::Call(_) | syn::Expr::MethodCall(_)) && is_simple_operand(&b.right) {
                    let l = self.w.src[lo(b.left.span())..hi(b.left.span())].to_string();
                    let r = self.w.src[lo(b.right.span())..hi(b.right.span())].to_string();
                    spec.push_str(&format!("\n    decreases ({}) - ({})\n", r, l));
                }
            }
        }
        if !spec.is_empty() {
            self.w.ghost(lo(e.body.brace_token.span.open()), spec, 0);
        }
        syn::visit::visit_expr_while(self, e);
    }
    fn visit_expr_loop(&mut self, e: &'ast syn::ExprLoop) {
        self.w.loop_ord += 1;
        let ord = self.w.loop_ord;
        // (no shape check: `break` is the ordinary exit of a `loop`, e.g. a desugared `while let`)
        let spec = self.loop_spec(ord);
        if !spec.is_empty() {
            self.w.ghost(lo(e.body.brace_token.span.open()), spec, 0);
        }
        syn::visit::visit_expr_loop(self, e);
    }
    fn visit_expr_for_loop(&mut self, e: &'ast syn::ExprForLoop) {
        self.w.loop_ord += 1;
        let ord = self.w.loop_ord;
        self.check_loop_shape(ord, &e.body);
        // X1: for (i, x) in E.iter().enumerate() { B }
        let mut x1 = None;
        if let syn::Expr::MethodCall(m1) = &*e.expr {
            if m1.method == "enumerate" && m1.args.is_empty() {
                if let syn::Expr::MethodCall(m0) = &*m1.receiver {
                    if m0.method == "iter" && m0.args.is_empty() {
                        if let syn::Pat::Tuple(pt) = &*e.pat {
                            if pt.elems.len() == 2 {
                                if let (syn::Pat::Ident(a), syn::Pat::Ident(b)) = (&pt.elems[0], &pt.elems[1]) {
                                    let recv = self.w.src[lo(m0.receiver.span())..hi(m0.receiver.span())].to_string();
                                    x1 = Some((a.ident.to_string(), b.ident.to_string(), recv));
                                }
                            }
                        }
                    }
                }
            }
        }
        if let Some((i, x, recv)) = x1 {
            if contains_break_continue(&e.body) {
                fatal(&format!("{}: X1 refused: loop body contains break/continue", self.w.func));
            }
            self.w.binds.insert("$idx".into(), i.clone());
            self.w.binds.insert("$elem".into(), x.clone());
            self.w.binds.insert("$coll".into(), recv.clone());
            let spec = self.loop_spec(ord);
            let open = e.body.brace_token.span.open();
            let head = format!("let mut {i}: usize = 0; while {i} < {recv}.len() {spec} {{ let {x} = &{recv}[{i}];", i = i, x = x, recv = recv, spec = spec);
            self.w.rewrite("X1", lo(e.for_token.span()), hi(open), head);
            self.w.rewrite("X1", lo(e.body.brace_token.span.close()), lo(e.body.brace_token.span.close()), format!(" {} += 1; ", i));
            // visit body only
            self.visit_block(&e.body);
            return;
        }
        // X12: `for x in &C` -> `for x in C.iter()` (identical for the std sequence collections used here: the
        // IntoIterator impl of `&VecDeque<T>` / `&Vec<T>` / `&[T]` *is* `.iter()`); vstd specifies the latter only
        if let syn::Expr::Reference(r) = &*e.expr {
            if r.mutability.is_none() {
                let inner = self.w.src[lo(r.expr.span())..hi(r.expr.span())].to_string();
                self.w.rewrite("X12", lo(e.expr.span()), hi(e.expr.span()), format!("{}.iter()", inner));
            }
        }
        let spec = self.loop_spec(ord);
        if let Some(ls) = self.w.c.loops.get(&ord) {
            if let Some(n) = &ls.iter_name {
                let n = n.clone();
                self.w.ghost(lo(e.expr.span()), format!("{}: ", n), 0);
            }
        }
        if !spec.is_empty() {
            self.w.ghost(lo(e.body.brace_token.span.open()), spec, 0);
        }
        syn::visit::visit_expr_for_loop(self, e);
    }
}

// -------------------------------------------------------------------- pass B: scopes and exits (G2, G3, G8)
struct PassB<'x, 'a> {
    w: &'x mut FnWeaver<'a>,
    active: Vec<ScopeOb>,
}

impl<'x, 'a, 'ast> Visit<'ast> for PassB<'x, 'a> {
    fn visit_block(&mut self, b: &'ast syn::Block) {
        let act = self.active.clone();
        self.w.walk_block(b, &act, &vec![], vec![], false);
    }
    fn visit_expr_if(&mut self, ei: &'ast syn::ExprIf) {
        let act = self.active.clone();
        let pre = self.w.if_cond(ei, &act);
        if !pre.is_empty() {
            // scope = then-block; falls through at its end
            self.w.walk_block(&ei.then_branch, &act, &vec![], pre, false);
        } else {
            self.w.walk_block(&ei.then_branch, &act, &vec![], vec![], false);
        }
        if let Some((_, eb)) = &ei.else_branch {
            self.visit_expr(eb);
        }
    }
    fn visit_expr_return(&mut self, r: &'ast syn::ExprReturn) {
        if let Some(inner) = &r.expr {
            self.visit_expr(inner);
        }
        let act = self.active.clone();
        self.w.place_at_return(r, &act, false);
    }
    fn visit_expr_closure(&mut self, _c: &'ast syn::ExprClosure) {
        // closures have their own exits; no scope obligations inside
    }
    fn visit_expr_break(&mut self, b: &'ast syn::ExprBreak) {
        if !self.active.is_empty() && false {
            let _ = b;
        }
        syn::visit::visit_expr_break(self, b);
    }
}

// -------------------------------------------------------------------- top level helpers
pub fn new_weaver<'a>(src: &'a str, file: &'a str, func: String, c: &'a FnContract, unit: &'a Unit, ctx: &'a mut Ctx) -> FnWeaver<'a> {
    let ret_name = c.ret.clone().unwrap_or_else(|| "r".to_string());
    FnWeaver {
        src,
        file,
        func,
        c,
        unit,
        ctx,
        edits: vec![],
        seq: 0,
        loop_ord: 0,
        closure_ord: 0,
        guards: vec![],
        params: vec![],
        params_by_value: vec![],
        ret_name,
        binds: BTreeMap::new(),
        bind_counts: BTreeMap::new(),
        call_counts: BTreeMap::new(),
        has_fx: c.fx,
        vacuity: false,
        saw_plain_lend: false,
        localise: false,
        self_fx: vec![],
        param_types: vec![],
        len_aliases: BTreeMap::new(),
        bound_loads: vec![],
        x11_params: vec![],
    }
}

pub fn cfg_attrs(attrs: &[syn::Attribute], src: &str) -> String {
    let mut out = String::new();
    for a in attrs {
        if a.path().is_ident("cfg") {
            out.push_str(&src[lo(a.span())..hi(a.span())]);
            out.push('\n');
        }
    }
    out
}

pub fn dropped_attrs(attrs: &[syn::Attribute]) -> HashSet<String> {
    let mut s = HashSet::new();
    for a in attrs {
        if !a.path().is_ident("cfg") {
            s.insert(a.path().segments.last().map(|x| x.ident.to_string()).unwrap_or_default());
        }
    }
    s
}
