use vstd::prelude::*;
use std::collections::VecDeque;
use std::sync::Arc;
use core::ops::{Deref, DerefMut};
verus! {
global size_of usize == 8;

#[verifier::external_body]
#[verifier::accept_recursive_types(T)]
pub struct Signal<T> { p: core::marker::PhantomData<T> }
impl<T> Signal<T> { pub uninterp spec fn term(&self) -> SignalTerminator<T>; }

#[verifier::external_body]
#[verifier::accept_recursive_types(T)]
pub struct SignalTerminator<T> { p: core::marker::PhantomData<T> }
pub tracked struct Fx<T> { pub ghost terminated: Seq<SignalTerminator<T>> }
impl<T> SignalTerminator<T> {
    #[verifier::external_body]
    pub unsafe fn terminate(&self, Tracked(fx): Tracked<&mut Fx<T>>)
        ensures final(fx).terminated == old(fx).terminated.push(*self)
    { unimplemented!() }
    #[verifier::external_body]
    pub fn eq(&self, other: &Signal<T>) -> (r: bool) ensures r == (*self == other.term()) { unimplemented!() }
}

pub struct ChannelInternal<T> {
    pub queue: VecDeque<T>,
    pub recv_blocking: bool,
    pub wait_list: VecDeque<SignalTerminator<T>>,
    pub capacity: usize,
    pub recv_count: u32,
    pub send_count: u32,
}
pub struct Mutex<X> { pub v: X }
#[verifier::external_body]
#[verifier::accept_recursive_types(X)]
pub struct MutexGuard<'a, X> { p: core::marker::PhantomData<&'a mut X> }
impl<'a, X> MutexGuard<'a, X> { pub uninterp spec fn view(&self) -> X; }
impl<T> Mutex<ChannelInternal<T>> {
    #[verifier::external_body]
    pub fn lock(&self) -> (g: MutexGuard<'_, ChannelInternal<T>>) ensures g.view().queue@.len() <= g.view().capacity { unimplemented!() }
    #[verifier::external_body]
    pub fn from(v: ChannelInternal<T>) -> Self { unimplemented!() }
}
pub type Internal<T> = Arc<Mutex<ChannelInternal<T>>>;

pub fn acquire_internal<T>(internal: &'_ Internal<T>) -> (g: MutexGuard<'_, ChannelInternal<T>>)
    ensures g.view().queue@.len() <= g.view().capacity
{
    #[cfg(not(feature = "std-mutex"))]
    return internal.lock();
    #[cfg(feature = "std-mutex")]
    internal.lock().unwrap()
}

impl<T> ChannelInternal<T> {
    pub fn new(bounded: bool, capacity: usize) -> Internal<T> {
        let mut abstract_capacity = capacity;
        if !bounded {
            // act like there is no limit
            abstract_capacity = usize::MAX;
        }
        let wait_list_size = if capacity == 0 { 8 } else { 4 };
        let ret = Self {
            queue: VecDeque::with_capacity(capacity),
            recv_blocking: false,
            wait_list: VecDeque::with_capacity(wait_list_size),
            recv_count: 1,
            send_count: 1,
            capacity: abstract_capacity,
        };

        Arc::new(Mutex::from(ret))
    }

    pub fn terminate_signals(&mut self, Tracked(fx): Tracked<&mut Fx<T>>)
        ensures final(self).wait_list@.len() == 0,
                final(fx).terminated == old(fx).terminated + old(self).wait_list@,
    {
        for t in it: self.wait_list.iter() 
            invariant fx.terminated =~= old(fx).terminated + self.wait_list@.take(it.index@ as int), self.wait_list@ == old(self).wait_list@ 
        {
            // Safety: it's safe to terminate owned signal once
            unsafe { t.terminate(Tracked(fx)) }
        }
        self.wait_list.clear();
    }

    pub fn cancel_send_signal(&mut self, sig: &Signal<T>) -> (r: bool)
        ensures
            r ==> exists|i: int| 0 <= i < old(self).wait_list@.len() && old(self).wait_list@[i] == sig.term() && final(self).wait_list@ == old(self).wait_list@.remove(i),
            !r ==> final(self).wait_list@ == old(self).wait_list@,
            !r && !old(self).recv_blocking ==> !old(self).wait_list@.contains(sig.term()),
    {
        if !self.recv_blocking {
            let mut i: usize = 0;
            while i < self.wait_list.len()
                invariant
                    self.wait_list@ == old(self).wait_list@, i <= self.wait_list@.len(),
                    forall|j: int| 0 <= j < i ==> self.wait_list@[j] != sig.term(),
                decreases self.wait_list@.len() - i
            {
                let send = &self.wait_list[i];
                if send.eq(sig) {
                    self.wait_list.remove(i);
                    return true;
                }
                i += 1;
            }
        }
        false
    }
}
}
fn main() {}
