use vstd::prelude::*;
use std::collections::VecDeque;
use core::ops::{Deref, DerefMut};
verus! {
global size_of usize == 8;

#[verifier::external_body]
#[verifier::accept_recursive_types(T)]
pub struct SignalTerminator<T> { p: core::marker::PhantomData<T> }
impl<T> SignalTerminator<T> {
    #[verifier::external_body]
    pub unsafe fn send(self, data: T) { unimplemented!() }
}

pub struct ChannelInternal<T> {
    pub queue: VecDeque<T>,
    pub recv_blocking: bool,
    pub wait_list: VecDeque<SignalTerminator<T>>,
    pub capacity: usize,
    pub recv_count: u32,
    pub send_count: u32,
}
pub open spec fn wf<T>(c: ChannelInternal<T>) -> bool {
    &&& c.queue@.len() <= c.capacity
    &&& (!c.recv_blocking && c.wait_list@.len() > 0 ==> c.queue@.len() == c.capacity)
    &&& (c.recv_blocking && c.wait_list@.len() > 0 ==> c.queue@.len() == 0)
    &&& ((c.recv_count == 0 || c.send_count == 0) ==> c.wait_list@.len() == 0)
}
impl<T> ChannelInternal<T> {
    pub fn next_recv(&mut self) -> (r: Option<SignalTerminator<T>>)
        ensures
            final(self).queue@ == old(self).queue@, final(self).capacity == old(self).capacity,
            final(self).recv_count == old(self).recv_count, final(self).send_count == old(self).send_count,
            r.is_none() ==> !final(self).recv_blocking && final(self).wait_list@ == old(self).wait_list@ && (!old(self).recv_blocking || old(self).wait_list@.len() == 0),
            r.is_some() ==> old(self).recv_blocking && final(self).recv_blocking && old(self).wait_list@.len() > 0 && r.unwrap() == old(self).wait_list@[0] && final(self).wait_list@ == old(self).wait_list@.skip(1),
    {
        if !self.recv_blocking {
            return None;
        }
        match self.wait_list.pop_front() {
            Some(sig) => Some(sig),
            None => {
                self.recv_blocking = false;
                None
            }
        }
    }
}

pub struct Mutex<T> { pub v: T }
#[verifier::external_body]
#[verifier::accept_recursive_types(X)]
pub struct MutexGuard<'a, X> { p: core::marker::PhantomData<&'a mut X> }
impl<'a, X> MutexGuard<'a, X> {
    pub uninterp spec fn view(&self) -> X;
}
impl<'a, X> Deref for MutexGuard<'a, X> {
    type Target = X;
    #[verifier::external_body]
    fn deref(&self) -> (res: &X) ensures *res == self.view() { unimplemented!() }
}
impl<'a, X> DerefMut for MutexGuard<'a, X> {
    #[verifier::external_body]
    fn deref_mut(&mut self) -> (res: &mut X) ensures *res == old(self).view(), *final(res) == final(self).view() { unimplemented!() }
}
#[verifier::external_body]
pub fn acquire_internal<T>(internal: &Mutex<ChannelInternal<T>>) -> (g: MutexGuard<'_, ChannelInternal<T>>)
    ensures wf(g.view())
{ unimplemented!() }
pub assume_specification<T> [core::mem::drop] (_0: T);

pub enum SendError { Closed, ReceiveClosed }
pub struct Sender<T> { pub internal: Mutex<ChannelInternal<T>> }

pub tracked struct CsTrace<T> { pub ghost pre: ChannelInternal<T>, pub ghost post: ChannelInternal<T>, pub ghost handoff: Option<SignalTerminator<T>> }

pub open spec fn same_counts<T>(a: ChannelInternal<T>, b: ChannelInternal<T>) -> bool {
    a.capacity == b.capacity && a.recv_count == b.recv_count && a.send_count == b.send_count
}
// reference semantics of try_send as an atomic step
pub open spec fn try_send_spec<T>(pre: ChannelInternal<T>, data: T, post: ChannelInternal<T>, r: Result<bool, SendError>, handoff: Option<SignalTerminator<T>>) -> bool {
    if pre.recv_count == 0 {
        &&& post == pre
        &&& r == (if pre.send_count == 0 { Err::<bool, SendError>(SendError::Closed) } else { Err(SendError::ReceiveClosed) })
    } else if pre.recv_blocking && pre.wait_list@.len() > 0 {
        // oldest waiting receiver gets it
        &&& r == Ok::<bool, SendError>(true) && handoff == Some(pre.wait_list@[0])
        &&& post.wait_list@ == pre.wait_list@.skip(1) && post.queue@ == pre.queue@ && same_counts(pre, post)
    } else if pre.queue@.len() < pre.capacity {
        &&& r == Ok::<bool, SendError>(true) && handoff.is_none()
        &&& post.queue@ == pre.queue@.push(data) && post.wait_list@ == pre.wait_list@ && same_counts(pre, post)
    } else {
        &&& r == Ok::<bool, SendError>(false) && handoff.is_none()
        &&& post.queue@ == pre.queue@ && post.wait_list@ == pre.wait_list@ && same_counts(pre, post)
    }
}

impl<T> Sender<T> {
        pub fn try_send(&self, data: T, Tracked(tr): Tracked<&mut CsTrace<T>>) -> (r: Result<bool, SendError>)
            ensures
                wf(final(tr).pre) ==> wf(final(tr).post),
                try_send_spec(final(tr).pre, data, final(tr).post, r, final(tr).handoff),
        {
            let mut internal = acquire_internal(&self.internal);
            proof { tr.pre = internal.view(); tr.handoff = None; }
            if internal.recv_count == 0 {
                let send_count = internal.send_count;
                // Avoid wasting lock time on dropping failed send object
                drop(internal);
                if send_count == 0 {
                    proof { tr.post = internal.view(); }
                    return Err(SendError::Closed);
                }
                proof { tr.post = internal.view(); }
                return Err(SendError::ReceiveClosed);
            }
            if let Some(first) = internal.next_recv() {
                drop(internal);
                proof { tr.handoff = Some(first); }
                // Safety: it's safe to send to owned signal once
                unsafe { first.send(data) }
                proof { tr.post = internal.view(); }
                return Ok(true);
            } else if internal.queue.len() < internal.capacity {
                internal.queue.push_back(data);
                proof { tr.post = internal.view(); }
                return Ok(true);
            }
            proof { tr.post = internal.view(); }
            Ok(false)
        }
}
}
fn main() {}
