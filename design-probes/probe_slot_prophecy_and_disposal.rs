use vstd::prelude::*;
use vstd::raw_ptr::MemContents;
use std::collections::VecDeque;
use core::ops::{Deref, DerefMut};
use core::mem::{needs_drop, size_of, MaybeUninit};
verus! {
global size_of usize == 8;

// ---------- trusted prelude (excerpt) ----------
#[verifier::external_body] #[verifier::accept_recursive_types(T)]
pub struct KanalPtr<T> { p: core::marker::PhantomData<T> }
#[verifier::external_body] #[verifier::accept_recursive_types(T)]
pub struct Signal<T> { p: core::marker::PhantomData<T> }
#[verifier::external_body] #[verifier::accept_recursive_types(T)]
pub struct SignalTerminator<T> { p: core::marker::PhantomData<T> }

pub open spec fn big<T>() -> bool { size_of::<T>() > size_of::<*mut T>() }
pub uninterp spec fn ptr_filled<T>(p: *mut T) -> bool;      // prophecy: the slot behind p gets written by a peer

impl<T> KanalPtr<T> {
    pub uninterp spec fn slot(&self) -> *mut T;
    #[verifier::external_body]
    pub fn new_from(addr: *mut T) -> (r: Self) ensures r.slot() == addr { unimplemented!() }
    #[verifier::external_body]
    pub fn new_write_address_ptr(addr: *mut T) -> (r: Self) ensures r.slot() == addr { unimplemented!() }
}
impl<T> Signal<T> {
    pub uninterp spec fn slot(&self) -> *mut T;
    pub uninterp spec fn delivered(&self) -> bool;   // prophecy: ends UNLOCKED
    pub uninterp spec fn term(&self) -> SignalTerminator<T>;
    #[verifier::external_body]
    pub fn new_sync(ptr: KanalPtr<T>) -> (r: Self) ensures r.slot() == ptr.slot() { unimplemented!() }
    #[verifier::external_body]
    pub fn get_terminator(&self) -> (r: SignalTerminator<T>) ensures r == self.term() { unimplemented!() }
    #[verifier::external_body]
    pub fn wait(&self) -> (b: bool) ensures b == self.delivered() { unimplemented!() }
    #[verifier::external_body]
    pub fn wait_timeout(&self, until: u64) -> (b: bool) ensures b ==> self.delivered() { unimplemented!() }
    #[verifier::external_body]
    pub fn is_terminated(&self) -> (b: bool) ensures b ==> !self.delivered() { unimplemented!() }
    #[verifier::external_body]
    pub unsafe fn assume_init(&self) -> T requires self.delivered(), !big::<T>() { unimplemented!() }
}
// receiver-side hand-off axiom: delivered && big ==> the lent slot has been filled
#[verifier::external_body]
pub proof fn axiom_delivered_fills<T>(s: &Signal<T>)
    ensures s.delivered() && big::<T>() ==> ptr_filled(s.slot()) {}

impl<T> SignalTerminator<T> {
    #[verifier::external_body] pub unsafe fn send(self, data: T) { unimplemented!() }
    #[verifier::external_body] pub unsafe fn recv(self) -> T { unimplemented!() }
}
pub assume_specification<T> [core::mem::drop] (_0: T);
pub uninterp spec fn spec_needs_drop<T: ?Sized>() -> bool;
pub assume_specification<T: ?Sized> [core::mem::needs_drop::<T>] () -> (b: bool) ensures b == spec_needs_drop::<T>();
pub assume_specification<T> [core::mem::MaybeUninit::<T>::as_mut_ptr] (_0: &mut core::mem::MaybeUninit<T>) -> (r: *mut T)
    ensures
        old(_0).mem_contents() is Init ==> final(_0).mem_contents() == old(_0).mem_contents(),
        old(_0).mem_contents() is Uninit ==> ((final(_0).mem_contents() is Init) <==> ptr_filled(r));
pub assume_specification<T> [core::mem::MaybeUninit::<T>::assume_init_drop] (_0: &mut core::mem::MaybeUninit<T>)
    requires old(_0).mem_contents() is Init,
    ensures final(_0).mem_contents() is Uninit;

pub struct ChannelInternal<T> {
    pub queue: VecDeque<T>, pub recv_blocking: bool, pub wait_list: VecDeque<SignalTerminator<T>>,
    pub capacity: usize, pub recv_count: u32, pub send_count: u32,
}
impl<T> ChannelInternal<T> {
    #[verifier::external_body] pub fn next_send(&mut self) -> Option<SignalTerminator<T>> { unimplemented!() }
    #[verifier::external_body] pub fn next_recv(&mut self) -> Option<SignalTerminator<T>> { unimplemented!() }
    #[verifier::external_body] pub fn push_recv(&mut self, s: SignalTerminator<T>) { unimplemented!() }
    #[verifier::external_body] pub fn push_send(&mut self, s: SignalTerminator<T>) { unimplemented!() }
    #[verifier::external_body] pub fn cancel_send_signal(&mut self, sig: &Signal<T>) -> (r: bool) ensures r ==> !sig.delivered() { unimplemented!() }
}
pub struct Mutex<X> { pub v: X }
#[verifier::external_body] #[verifier::accept_recursive_types(X)]
pub struct MutexGuard<'a, X> { p: core::marker::PhantomData<&'a mut X> }
impl<'a, X> MutexGuard<'a, X> { pub uninterp spec fn view(&self) -> X; }
impl<'a, X> Deref for MutexGuard<'a, X> { type Target = X;
    #[verifier::external_body] fn deref(&self) -> (res: &X) ensures *res == self.view() { unimplemented!() } }
impl<'a, X> DerefMut for MutexGuard<'a, X> {
    #[verifier::external_body] fn deref_mut(&mut self) -> (res: &mut X) ensures *res == old(self).view(), *final(res) == final(self).view() { unimplemented!() } }
#[verifier::external_body]
pub fn acquire_internal<T>(internal: &Mutex<ChannelInternal<T>>) -> (g: MutexGuard<'_, ChannelInternal<T>>) { unimplemented!() }

pub enum ReceiveError { Closed, SendClosed }
pub enum SendErrorTimeout { Closed, ReceiveClosed, Timeout }
pub struct Receiver<T> { pub internal: Mutex<ChannelInternal<T>> }
pub struct Sender<T> { pub internal: Mutex<ChannelInternal<T>> }

pub open spec fn slot_disposed<T>(sig: &Signal<T>, data: MaybeUninit<T>) -> bool {
    &&& sig.delivered() ==> data.mem_contents() is Init
    &&& (!sig.delivered() && spec_needs_drop::<T>()) ==> data.mem_contents() is Uninit
}

impl<T> Receiver<T> {
    // /repo/src/lib.rs Receiver::recv, body verbatim
    pub fn recv(&self) -> Result<T, ReceiveError> {
        let mut internal = acquire_internal(&self.internal);
        if internal.recv_count == 0 {
            return Err(ReceiveError::Closed);
        }
        if let Some(v) = internal.queue.pop_front() {
            if let Some(p) = internal.next_send() {
                // if there is a sender take its data and push it into the queue
                // Safety: it's safe to receive from owned signal once
                unsafe { internal.queue.push_back(p.recv()) }
            }
            Ok(v)
        } else if let Some(p) = internal.next_send() {
            drop(internal);
            // Safety: it's safe to receive from owned signal once
            unsafe { Ok(p.recv()) }
        } else {
            if internal.send_count == 0 {
                return Err(ReceiveError::SendClosed);
            }
            // no active waiter so push to the queue
            let mut ret = MaybeUninit::<T>::uninit();
            let sig = Signal::new_sync(KanalPtr::new_write_address_ptr(ret.as_mut_ptr()));
            internal.push_recv(sig.get_terminator());
            drop(internal);

            if !sig.wait() {
                return Err(ReceiveError::Closed);
            }
            /*+G5*/ proof { axiom_delivered_fills(&sig); } /*-G5*/

            // Safety: it's safe to assume init as data is forgotten on another
            // side
            if size_of::<T>() > size_of::<*mut T>() {
                Ok(unsafe { ret.assume_init() })
            } else {
                Ok(unsafe { sig.assume_init() })
            }
        }
        // if the queue is not empty send the data
    }
}

impl<T> Sender<T> {
    // /repo/src/lib.rs Sender::send_timeout, body verbatim except Instant replaced by u64 in this probe
    pub fn send_timeout(&self, data: T, deadline: u64) -> Result<(), SendErrorTimeout> {
        let mut internal = acquire_internal(&self.internal);
        if internal.recv_count == 0 {
            let send_count = internal.send_count;
            // Avoid wasting lock time on dropping failed send object
            drop(internal);
            if send_count == 0 {
                return Err(SendErrorTimeout::Closed);
            }
            return Err(SendErrorTimeout::ReceiveClosed);
        }
        if let Some(first) = internal.next_recv() {
            drop(internal);
            // Safety: it's safe to send to owned signal once
            unsafe { first.send(data) }
            Ok(())
        } else if internal.queue.len() < internal.capacity {
            // Safety: MaybeUninit is used as a ManuallyDrop, and data in it is
            // valid.
            internal.queue.push_back(data);
            Ok(())
        } else {
            let mut data = MaybeUninit::new(data);
            // send directly to the waitlist
            let sig = Signal::new_sync(KanalPtr::new_from(data.as_mut_ptr()));
            internal.push_send(sig.get_terminator());
            drop(internal);
            if !sig.wait_timeout(deadline) {
                if sig.is_terminated() {
                    // Safety: data failed to move, sender should drop it if it
                    // needs to
                    if needs_drop::<T>() {
                        unsafe { data.assume_init_drop() }
                    }
                    /*+G8*/ assert(slot_disposed(&sig, data)); /*-G8*/
                    return Err(SendErrorTimeout::Closed);
                }
                {
                    let mut internal = acquire_internal(&self.internal);
                    if internal.cancel_send_signal(&sig) {
                        /*+G8*/ assert(slot_disposed(&sig, data)); /*-G8*/
                        return Err(SendErrorTimeout::Timeout);
                    }
                }
                // removing receive failed to wait for the signal response
                if !sig.wait() {
                    // Safety: data failed to move, sender should drop it if it
                    // needs to
                    if needs_drop::<T>() {
                        unsafe { data.assume_init_drop() }
                    }
                    /*+G8*/ assert(slot_disposed(&sig, data)); /*-G8*/
                    return Err(SendErrorTimeout::Closed);
                }
            }
            /*+G8*/ assert(slot_disposed(&sig, data)); /*-G8*/
            Ok(())
        }
        // if the queue is not empty send the data
    }
}
}
fn main() {}
