use vstd::prelude::*;
use core::time::Duration;
verus! {
global size_of usize == 8;
#[verifier::external_body] pub fn get_parallelism() -> usize { unimplemented!() }
#[verifier::external_body] pub fn yield_now_std() { }
#[verifier::external_body] pub fn yield_now() { }
#[verifier::external_body] pub fn spin_hint() { }
#[verifier::external_body] pub fn sleep(dur: Duration) { }
pub assume_specification [core::time::Duration::from_nanos] (_0: u64) -> Duration;

#[verifier::exec_allows_no_decreases_clause]
pub fn spin_cond<F: Fn() -> bool>(cond: F)
    requires cond.requires(())
    ensures cond.ensures((), true)
{
    if get_parallelism() == 1 {
        while !cond() 
            invariant cond.requires(())
            ensures cond.ensures((), true)
        {
            yield_now_std();
        }
        return;
    }

    const NO_YIELD: usize = 1;
    const SPIN_YIELD: usize = 1;
    const OS_YIELD: usize = 0;
    const ZERO_SLEEP: usize = 2;
    const SPINS: u32 = 8;
    let mut spins: u32 = SPINS;

    // Short spinning phase
    for _ in 0..NO_YIELD 
        invariant cond.requires(())
    {
        for _ in 0..SPINS / 2 
            invariant cond.requires(())
        {
            if cond() {
                return;
            }
            spin_hint();
        }
    }

    // Longer spinning and yielding phase
    loop 
        invariant cond.requires(())
    {
        for _ in 0..SPIN_YIELD 
            invariant cond.requires(())
        {
            yield_now();

            for _ in 0..spins 
                invariant cond.requires(())
            {
                if cond() {
                    return;
                }
            }
        }

        // Longer spinning and yielding phase with OS yield
        for _ in 0..OS_YIELD 
            invariant cond.requires(())
        {
            yield_now_std();

            for _ in 0..spins 
                invariant cond.requires(())
            {
                if cond() {
                    return;
                }
            }
        }

        // Phase with zero-length sleeping and yielding
        for _ in 0..ZERO_SLEEP 
            invariant cond.requires(())
        {
            sleep(Duration::from_nanos(0));

            for _ in 0..spins 
                invariant cond.requires(())
            {
                if cond() {
                    return;
                }
            }
        }

        // Geometric backoff
        if spins < (1 << 30) {
            spins <<= 1;
        }
        // Backoff about 1ms
        sleep(Duration::from_nanos(1 << 20));
    }
}
}
fn main() {}
