#![feature(allocator_api)]
use vstd::prelude::*;
use std::collections::VecDeque;
use core::ops::{Deref, DerefMut};
verus! {
global size_of usize == 8;

#[verifier::external_body]
#[verifier::accept_recursive_types(T)]
pub struct SignalTerminator<T> { p: core::marker::PhantomData<T> }
impl<T> SignalTerminator<T> {
    pub uninterp spec fn payload(&self) -> T;
    #[verifier::external_body]
    pub unsafe fn recv(self) -> (r: T) ensures r == self.payload() { unimplemented!() }
}
pub open spec fn payloads<T>(w: Seq<SignalTerminator<T>>) -> Seq<T> { w.map_values(|s: SignalTerminator<T>| s.payload()) }

pub struct ChannelInternal<T> {
    pub queue: VecDeque<T>,
    pub recv_blocking: bool,
    pub wait_list: VecDeque<SignalTerminator<T>>,
    pub capacity: usize,
    pub recv_count: u32,
    pub send_count: u32,
}
impl<T> ChannelInternal<T> {
    pub fn next_send(&mut self) -> (r: Option<SignalTerminator<T>>)
        ensures
            final(self).queue@ == old(self).queue@, final(self).capacity == old(self).capacity,
            final(self).recv_count == old(self).recv_count, final(self).send_count == old(self).send_count,
            r.is_none() ==> final(self).recv_blocking && final(self).wait_list@ == old(self).wait_list@ && (old(self).recv_blocking || old(self).wait_list@.len() == 0),
            r.is_some() ==> !old(self).recv_blocking && !final(self).recv_blocking && old(self).wait_list@.len() > 0 && r.unwrap() == old(self).wait_list@[0] && final(self).wait_list@ == old(self).wait_list@.skip(1),
    {
        if self.recv_blocking {
            return None;
        }
        match self.wait_list.pop_front() {
            Some(sig) => Some(sig),
            None => {
                self.recv_blocking = true;
                None
            }
        }
    }
}

pub struct Mutex<T> { pub v: T }
#[verifier::external_body]
#[verifier::accept_recursive_types(X)]
pub struct MutexGuard<'a, X> { p: core::marker::PhantomData<&'a mut X> }
impl<'a, X> MutexGuard<'a, X> {
    pub uninterp spec fn view(&self) -> X;
}
impl<'a, X> Deref for MutexGuard<'a, X> {
    type Target = X;
    #[verifier::external_body]
    fn deref(&self) -> (res: &X) ensures *res == self.view() { unimplemented!() }
}
impl<'a, X> DerefMut for MutexGuard<'a, X> {
    #[verifier::external_body]
    fn deref_mut(&mut self) -> (res: &mut X) ensures *res == old(self).view(), *final(res) == final(self).view() { unimplemented!() }
}
#[verifier::external_body]
pub fn acquire_internal<T>(internal: &Mutex<ChannelInternal<T>>) -> (g: MutexGuard<'_, ChannelInternal<T>>)
{ unimplemented!() }
pub assume_specification<T> [core::mem::drop] (_0: T);

pub assume_specification<T, A: core::alloc::Allocator> [Vec::<T, A>::capacity] (_0: &Vec<T, A>) -> (r: usize)
    ensures r >= _0@.len();

pub open spec fn max_len() -> int { 0x4000_0000_0000_0000 }
#[verifier::external_body]
pub broadcast proof fn axiom_vecdeque_len_bound<T>(v: VecDeque<T>)
    ensures (#[trigger] v@).len() < max_len() {}
#[verifier::external_body]
pub broadcast proof fn axiom_vec_len_bound<T>(v: Vec<T>)
    ensures (#[trigger] v@).len() < max_len() {}

pub enum ReceiveError { Closed, SendClosed }
pub struct Receiver<T> { pub internal: Mutex<ChannelInternal<T>> }

pub open spec fn senders_avail<T>(c: ChannelInternal<T>) -> Seq<SignalTerminator<T>> {
    if c.recv_blocking { Seq::empty() } else { c.wait_list@ }
}

impl<T> Receiver<T> {
        pub fn drain_into(&self, vec: &mut Vec<T>) -> (res: Result<usize, ReceiveError>)
        {
            broadcast use axiom_vecdeque_len_bound, axiom_vec_len_bound;
            let vec_initial_length = vec.len();
            let remaining_cap = vec.capacity() - vec_initial_length;
            let mut internal = acquire_internal(&self.internal);
            let ghost pre = internal.view();
            if internal.recv_count == 0 {
                return Err(ReceiveError::Closed);
            }
            proof { axiom_vecdeque_len_bound(internal.view().queue); axiom_vecdeque_len_bound(internal.view().wait_list); axiom_vec_len_bound(*vec); }
            let required_cap = internal.queue.len() + {
                if internal.recv_blocking {
                    0
                } else {
                    internal.wait_list.len()
                }
            };
            if required_cap > remaining_cap {
                vec.reserve(vec_initial_length + required_cap - remaining_cap);
            }
            while let Some(v) = internal.queue.pop_front() 
                invariant
                    vec@ + internal.view().queue@ == old(vec)@ + pre.queue@,
                    internal.view().wait_list@ == pre.wait_list@,
                    internal.view().recv_blocking == pre.recv_blocking,
                ensures internal.view().queue@.len() == 0,
                decreases internal.view().queue@.len()
            {
                vec.push(v);
            }
            while let Some(p) = internal.next_send() 
                invariant
                    internal.view().queue@.len() == 0,
                    vec@ + payloads(senders_avail(internal.view())) == old(vec)@ + pre.queue@ + payloads(senders_avail(pre)),
                ensures senders_avail(internal.view()).len() == 0,
                decreases senders_avail(internal.view()).len()
            {
                // Safety: it's safe to receive from owned signal once
                unsafe { vec.push(p.recv()) }
            }
            assert(vec@ == old(vec)@ + pre.queue@ + payloads(senders_avail(pre)));
            assert(required_cap == pre.queue@.len() + senders_avail(pre).len());
            Ok(required_cap)
        }
}
}
fn main() {}
