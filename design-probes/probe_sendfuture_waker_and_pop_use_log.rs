use vstd::prelude::*;
use std::collections::VecDeque;
use core::ops::{Deref, DerefMut};
use core::mem::{needs_drop, size_of, MaybeUninit};
use core::marker::PhantomPinned;
use core::task::{Poll, Context, Waker};
verus! {
global size_of usize == 8;

#[verifier::external_type_specification] #[verifier::accept_recursive_types(T)]
pub struct ExPoll<T>(core::task::Poll<T>);
#[verifier::external_type_specification] #[verifier::external_body]
pub struct ExContext<'a>(core::task::Context<'a>);
#[verifier::external_type_specification] #[verifier::external_body]
pub struct ExWaker(core::task::Waker);
#[verifier::external_type_specification]
pub struct ExPhantomPinned(core::marker::PhantomPinned);
pub assume_specification<'a> [core::task::Context::<'a>::waker] (_0: &core::task::Context<'a>) -> (r: &'a Waker)
    ensures *r == ctx_waker(_0);
pub uninterp spec fn ctx_waker(c: &Context<'_>) -> Waker;

#[verifier::external_body] #[verifier::accept_recursive_types(T)]
pub struct KanalPtr<T> { p: core::marker::PhantomData<T> }
#[verifier::external_body] #[verifier::accept_recursive_types(T)]
pub struct Signal<T> { p: core::marker::PhantomData<T> }
#[verifier::external_body] #[verifier::accept_recursive_types(T)]
pub struct SignalTerminator<T> { p: core::marker::PhantomData<T> }

#[derive(PartialEq, Eq)]
pub enum Role { Sender, Receiver }
pub tracked struct Fx<T> {
    pub ghost popped: Set<(SignalTerminator<T>, Role)>,
    pub ghost used: Set<SignalTerminator<T>>,
}
impl<T> KanalPtr<T> {
    #[verifier::external_body] pub fn new_unchecked(addr: *mut T) -> Self { unimplemented!() }
}
impl<T> Signal<T> {
    pub uninterp spec fn wakes(&self, w: Waker) -> bool;
    pub uninterp spec fn delivered(&self) -> bool;
    #[verifier::external_body] pub fn get_terminator(&self) -> SignalTerminator<T> { unimplemented!() }
    #[verifier::external_body] pub fn poll(&self) -> (r: Poll<bool>)
        ensures r matches Poll::Ready(b) ==> b == self.delivered() { unimplemented!() }
    #[verifier::external_body] pub fn set_ptr(&mut self, ptr: KanalPtr<T>)
        ensures forall|w: Waker| final(self).wakes(w) == old(self).wakes(w) { unimplemented!() }
    #[verifier::external_body] pub fn register_waker(&mut self, waker: &Waker)
        ensures final(self).wakes(*waker) { unimplemented!() }
    #[verifier::external_body] pub fn will_wake(&self, waker: &Waker) -> (b: bool)
        ensures b == self.wakes(*waker) { unimplemented!() }
    #[verifier::external_body] pub fn async_blocking_wait(&self) -> (b: bool) ensures b == self.delivered() { unimplemented!() }
}
impl<T> SignalTerminator<T> {
    #[verifier::external_body]
    pub unsafe fn send(self, data: T, Tracked(fx): Tracked<&mut Fx<T>>)
        requires old(fx).popped.contains((self, Role::Receiver)), !old(fx).used.contains(self)
        ensures final(fx).used == old(fx).used.insert(self), final(fx).popped == old(fx).popped
    { unimplemented!() }
    #[verifier::external_body]
    pub unsafe fn recv(self, Tracked(fx): Tracked<&mut Fx<T>>) -> T
        requires old(fx).popped.contains((self, Role::Sender)), !old(fx).used.contains(self)
        ensures final(fx).used == old(fx).used.insert(self), final(fx).popped == old(fx).popped
    { unimplemented!() }
}

pub struct ChannelInternal<T> {
    pub queue: VecDeque<T>, pub recv_blocking: bool, pub wait_list: VecDeque<SignalTerminator<T>>,
    pub capacity: usize, pub recv_count: u32, pub send_count: u32,
}
impl<T> ChannelInternal<T> {
    #[verifier::external_body]
    pub fn next_send(&mut self, Tracked(fx): Tracked<&mut Fx<T>>) -> (r: Option<SignalTerminator<T>>)
        ensures r matches Some(s) ==> final(fx).popped == old(fx).popped.insert((s, Role::Sender)) && !old(fx).popped.contains((s, Role::Sender)) && !old(fx).used.contains(s),
                r is None ==> final(fx).popped == old(fx).popped,
                final(fx).used == old(fx).used,
    { unimplemented!() }
    #[verifier::external_body]
    pub fn next_recv(&mut self, Tracked(fx): Tracked<&mut Fx<T>>) -> (r: Option<SignalTerminator<T>>)
        ensures r matches Some(s) ==> final(fx).popped == old(fx).popped.insert((s, Role::Receiver)) && !old(fx).used.contains(s),
                r is None ==> final(fx).popped == old(fx).popped,
                final(fx).used == old(fx).used,
    { unimplemented!() }
    #[verifier::external_body] pub fn push_send(&mut self, s: SignalTerminator<T>) { unimplemented!() }
    #[verifier::external_body] pub fn send_signal_exists(&self, sig: &Signal<T>) -> bool { unimplemented!() }
}
pub struct Mutex<X> { pub v: X }
pub type Internal<T> = Mutex<ChannelInternal<T>>;
#[verifier::external_body] #[verifier::accept_recursive_types(X)]
pub struct MutexGuard<'a, X> { p: core::marker::PhantomData<&'a mut X> }
impl<'a, X> MutexGuard<'a, X> { pub uninterp spec fn view(&self) -> X; }
impl<'a, X> Deref for MutexGuard<'a, X> { type Target = X;
    #[verifier::external_body] fn deref(&self) -> (res: &X) ensures *res == self.view() { unimplemented!() } }
impl<'a, X> DerefMut for MutexGuard<'a, X> {
    #[verifier::external_body] fn deref_mut(&mut self) -> (res: &mut X) ensures *res == old(self).view(), *final(res) == final(self).view() { unimplemented!() } }
#[verifier::external_body]
pub fn acquire_internal<T>(internal: &Mutex<ChannelInternal<T>>) -> (g: MutexGuard<'_, ChannelInternal<T>>) { unimplemented!() }
pub assume_specification<T> [core::mem::drop] (_0: T);
pub uninterp spec fn spec_needs_drop<T: ?Sized>() -> bool;
pub assume_specification<T: ?Sized> [core::mem::needs_drop::<T>] () -> (b: bool) ensures b == spec_needs_drop::<T>();
pub assume_specification<T> [core::mem::MaybeUninit::<T>::as_mut_ptr] (_0: &mut core::mem::MaybeUninit<T>) -> *mut T;

pub enum SendError { Closed, ReceiveClosed }
pub enum ReceiveError { Closed, SendClosed }
pub enum FutureState { Zero, Waiting, Done }

pub struct SendFuture<'a, T> {
    state: FutureState,
    internal: &'a Internal<T>,
    sig: Signal<T>,
    data: MaybeUninit<T>,
    _pinned: PhantomPinned,
}
impl<'a, T> SendFuture<'a, T> {
    #[verifier::external_body] unsafe fn read_local_data(&self) -> T { unimplemented!() }
    #[verifier::external_body] unsafe fn drop_local_data(&mut self)
        ensures final(self).sig == old(self).sig, final(self).state == old(self).state { unimplemented!() }

    // /repo/src/future.rs  impl Future for SendFuture :: poll  (X2, X3 applied; G6 ghost args)
    fn poll(&mut self, cx: &mut core::task::Context<'_>, Tracked(fx): Tracked<&mut Fx<T>>) -> (r: Poll<Result<(), SendError>>)
        requires !(old(self).state is Done), old(fx).popped == Set::<(SignalTerminator<T>, Role)>::empty(), old(fx).used == Set::<SignalTerminator<T>>::empty(),
        ensures
            /*O-pending-waker C16*/ r is Pending ==> final(self).sig.wakes(ctx_waker(old(cx))),
            /*O-pop-used C01*/ forall|t: SignalTerminator<T>, ro: Role| final(fx).popped.contains((t, ro)) ==> final(fx).used.contains(t),
    {
        let this = self;

        match this.state {
            FutureState::Zero => {
                let mut internal = acquire_internal(this.internal);
                if internal.recv_count == 0 {
                    let send_count = internal.send_count;
                    drop(internal);
                    this.state = FutureState::Done;
                    if needs_drop::<T>() {
                        // the data failed to move, drop it locally
                        // Safety: the data is not moved, we are sure that it is inited in this
                        // point, it's safe to init drop it.
                        unsafe {
                            this.drop_local_data();
                        }
                    }
                    return Poll::Ready(Err(if send_count == 0 {
                        SendError::Closed
                    } else {
                        SendError::ReceiveClosed
                    }));
                }
                if let Some(first) = internal.next_recv(Tracked(fx)) {
                    drop(internal);
                    this.state = FutureState::Done;
                    // Safety: data is inited and available from constructor
                    unsafe { first.send(this.read_local_data(), Tracked(fx)) }
                    Poll::Ready(Ok(()))
                } else if internal.queue.len() < internal.capacity {
                    this.state = FutureState::Done;
                    // Safety: data is inited and available from constructor
                    internal.queue.push_back(unsafe { this.read_local_data() });
                    drop(internal);
                    Poll::Ready(Ok(()))
                } else {
                    this.state = FutureState::Waiting;
                    // if T is smaller than register size, we already have data in pointer address
                    // from initialization step
                    if size_of::<T>() > size_of::<*mut T>() {
                        this.sig
                            .set_ptr(KanalPtr::new_unchecked(this.data.as_mut_ptr()));
                    }
                    this.sig.register_waker(cx.waker());
                    // send directly to the waitlist
                    internal.push_send(this.sig.get_terminator());
                    drop(internal);
                    Poll::Pending
                }
            }
            FutureState::Waiting => match this.sig.poll() {
                Poll::Ready(success) => {
                    this.state = FutureState::Done;
                    if success {
                        Poll::Ready(Ok(()))
                    } else {
                        if needs_drop::<T>() {
                            // the data failed to move, drop it locally
                            // Safety: the data is not moved, we are sure that it is inited in
                            // this point, it's safe to init drop it.
                            unsafe {
                                this.drop_local_data();
                            }
                        }
                        Poll::Ready(Err(SendError::Closed))
                    }
                }
                Poll::Pending => {
                    if !this.sig.will_wake(cx.waker()) {
                        // Waker is changed and we need to update waker in the waiting list
                        if acquire_internal(this.internal).send_signal_exists(&this.sig) {
                            // signal is not shared with other thread yet so it's safe to
                            // update waker locally
                            // this.sig.register_waker(cx.waker());
                            Poll::Pending
                        } else {
                            // signal is already shared, and data will be available shortly, so wait
                            // synchronously and return the result note:
                            // it's not possible safely to update waker after the signal is shared,
                            // but we know data will be ready shortly,
                            //   we can wait synchronously and receive it.
                            this.state = FutureState::Done;
                            if this.sig.async_blocking_wait() {
                                Poll::Ready(Ok(()))
                            } else {
                                // the data failed to move, drop it locally
                                // Safety: the data is not moved, we are sure that it is inited in
                                // this point, it's safe to init
                                // drop it.
                                if needs_drop::<T>() {
                                    unsafe {
                                        this.drop_local_data();
                                    }
                                }
                                Poll::Ready(Err(SendError::Closed))
                            }
                        }
                    } else {
                        Poll::Pending
                    }
                }
            },
            _ => panic!("polled after result is already returned"),
        }
    }
}

pub struct Receiver<T> { pub internal: Mutex<ChannelInternal<T>> }
impl<T> Receiver<T> {
    // /repo/src/lib.rs shared_recv_impl :: try_recv, verbatim + G6
    pub fn try_recv(&self, Tracked(fx): Tracked<&mut Fx<T>>) -> (r: Result<Option<T>, ReceiveError>)
        requires old(fx).popped == Set::<(SignalTerminator<T>, Role)>::empty(), old(fx).used == Set::<SignalTerminator<T>>::empty(),
        ensures forall|t: SignalTerminator<T>, ro: Role| final(fx).popped.contains((t, ro)) ==> final(fx).used.contains(t),
    {
        let mut internal = acquire_internal(&self.internal);
        if internal.recv_count == 0 {
            return Err(ReceiveError::Closed);
        }
        if let Some(v) = internal.queue.pop_front() {
            if let Some(p) = internal.next_send(Tracked(fx)) {
                // if there is a sender take its data and push it into the
                // queue Safety: it's safe to receive from owned
                // signal once
                unsafe { internal.queue.push_back(p.recv(Tracked(fx))) }
            }
            return Ok(Some(v));
        } else if let Some(p) = internal.next_send(Tracked(fx)) {
            // Safety: it's safe to receive from owned signal once
            drop(internal);
            return unsafe { Ok(Some(p.recv(Tracked(fx)))) };
        }
        if internal.send_count == 0 {
            return Err(ReceiveError::SendClosed);
        }
        Ok(None)
        // if the queue is not empty send the data
    }
}
}
fn main() {}
