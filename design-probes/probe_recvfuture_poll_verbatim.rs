use vstd::prelude::*;
use std::collections::VecDeque;
use core::ops::{Deref, DerefMut};
use core::mem::{needs_drop, size_of, MaybeUninit};
use core::marker::PhantomPinned;
use core::pin::Pin;
use core::task::{Poll, Context, Waker};
verus! {

#[verifier::external_body]
#[verifier::accept_recursive_types(T)]
pub struct KanalPtr<T> { p: core::marker::PhantomData<T> }
#[verifier::external_body]
#[verifier::accept_recursive_types(T)]
pub struct Signal<T> { p: core::marker::PhantomData<T> }
#[verifier::external_body]
#[verifier::accept_recursive_types(T)]
pub struct SignalTerminator<T> { p: core::marker::PhantomData<T> }

impl<T> KanalPtr<T> {
    #[verifier::external_body]
    pub fn new_unchecked(addr: *mut T) -> Self { unimplemented!() }
}
impl<T> Signal<T> {
    #[verifier::external_body]
    pub fn new_async() -> Self { unimplemented!() }
    #[verifier::external_body]
    pub fn get_terminator(&self) -> SignalTerminator<T> { unimplemented!() }
    #[verifier::external_body]
    pub fn poll(&self) -> Poll<bool> { unimplemented!() }
    #[verifier::external_body]
    pub fn set_ptr(&mut self, ptr: KanalPtr<T>) { unimplemented!() }
    #[verifier::external_body]
    pub fn register_waker(&mut self, waker: &Waker) { unimplemented!() }
    #[verifier::external_body]
    pub fn will_wake(&self, waker: &Waker) -> bool { unimplemented!() }
    #[verifier::external_body]
    pub fn async_blocking_wait(&self) -> bool { unimplemented!() }
    #[verifier::external_body]
    pub unsafe fn assume_init(&self) -> T { unimplemented!() }
}
impl<T> SignalTerminator<T> {
    #[verifier::external_body]
    pub unsafe fn recv(self) -> T { unimplemented!() }
}

pub struct ChannelInternal<T> {
    pub queue: VecDeque<T>,
    pub recv_blocking: bool,
    pub wait_list: VecDeque<SignalTerminator<T>>,
    pub capacity: usize,
    pub recv_count: u32,
    pub send_count: u32,
}
impl<T> ChannelInternal<T> {
    #[verifier::external_body]
    pub fn next_send(&mut self) -> (r: Option<SignalTerminator<T>>) { unimplemented!() }
    #[verifier::external_body]
    pub fn push_recv(&mut self, s: SignalTerminator<T>) { unimplemented!() }
    #[verifier::external_body]
    pub fn recv_signal_exists(&self, sig: &Signal<T>) -> bool { unimplemented!() }
}

pub struct Mutex<T> { pub v: T }
pub type Internal<T> = Mutex<ChannelInternal<T>>;
#[verifier::external_body]
#[verifier::accept_recursive_types(X)]
pub struct MutexGuard<'a, X> { p: core::marker::PhantomData<&'a mut X> }
impl<'a, X> MutexGuard<'a, X> {
    pub uninterp spec fn view(&self) -> X;
}
impl<'a, X> Deref for MutexGuard<'a, X> {
    type Target = X;
    #[verifier::external_body]
    fn deref(&self) -> (res: &X) ensures *res == self.view() { unimplemented!() }
}
impl<'a, X> DerefMut for MutexGuard<'a, X> {
    #[verifier::external_body]
    fn deref_mut(&mut self) -> (res: &mut X) ensures *res == old(self).view(), *final(res) == final(self).view() { unimplemented!() }
}
#[verifier::external_body]
pub fn acquire_internal<T>(internal: &Mutex<ChannelInternal<T>>) -> (g: MutexGuard<'_, ChannelInternal<T>>)
{ unimplemented!() }
pub assume_specification<T> [core::mem::drop] (_0: T);
pub assume_specification<T: ?Sized> [core::mem::needs_drop::<T>] () -> bool;
pub assume_specification<T> [core::mem::MaybeUninit::<T>::as_mut_ptr] (_0: &mut core::mem::MaybeUninit<T>) -> *mut T;
pub assume_specification<T> [core::mem::MaybeUninit::<T>::as_ptr] (_0: &core::mem::MaybeUninit<T>) -> *const T;

#[verifier::external_type_specification]
#[verifier::accept_recursive_types(T)]
pub struct ExPoll<T>(core::task::Poll<T>);
#[verifier::external_type_specification]
#[verifier::external_body]
pub struct ExContext<'a>(core::task::Context<'a>);
#[verifier::external_type_specification]
#[verifier::external_body]
pub struct ExWaker(core::task::Waker);
pub assume_specification<'a> [core::task::Context::<'a>::waker] (_0: &core::task::Context<'a>) -> &'a Waker;

#[verifier::external_type_specification]
pub struct ExPhantomPinned(core::marker::PhantomPinned);

pub enum ReceiveError { Closed, SendClosed }

#[derive(PartialEq, Clone, Copy)]
pub enum FutureState {
    Zero,
    Waiting,
    Done,
}

pub struct ReceiveFuture<'a, T> {
    state: FutureState,
    is_stream: bool,
    internal: &'a Internal<T>,
    sig: Signal<T>,
    data: MaybeUninit<T>,
    _pinned: PhantomPinned,
}

impl<'a, T> ReceiveFuture<'a, T> {
    #[verifier::external_body]
    unsafe fn read_local_data(&self) -> T { unimplemented!() }

    fn poll(&mut self, cx: &mut core::task::Context<'_>) -> Poll<Result<T, ReceiveError>> {
        let this = self;

        loop
            decreases (if this.state is Done { 1int } else { 0int })
        {
            return match this.state {
                FutureState::Zero => {
                    let mut internal = acquire_internal(this.internal);
                    if internal.recv_count == 0 {
                        this.state = FutureState::Done;
                        return Poll::Ready(Err(ReceiveError::Closed));
                    }
                    if let Some(v) = internal.queue.pop_front() {
                        if let Some(t) = internal.next_send() {
                            // if there is a sender take its data and push it into the queue
                            unsafe { internal.queue.push_back(t.recv()) }
                        }
                        drop(internal);
                        this.state = FutureState::Done;
                        Poll::Ready(Ok(v))
                    } else if let Some(t) = internal.next_send() {
                        drop(internal);
                        this.state = FutureState::Done;
                        Poll::Ready(Ok(unsafe { t.recv() }))
                    } else {
                        if internal.send_count == 0 {
                            this.state = FutureState::Done;
                            return Poll::Ready(Err(ReceiveError::SendClosed));
                        }
                        this.state = FutureState::Waiting;
                        if size_of::<T>() > size_of::<*mut T>() {
                            this.sig
                                .set_ptr(KanalPtr::new_unchecked(this.data.as_mut_ptr()));
                        }
                        this.sig.register_waker(cx.waker());
                        // no active waiter so push to the queue
                        internal.push_recv(this.sig.get_terminator());
                        drop(internal);
                        Poll::Pending
                    }
                }
                FutureState::Waiting => match this.sig.poll() {
                    Poll::Ready(success) => {
                        this.state = FutureState::Done;
                        if success {
                            Poll::Ready(Ok(unsafe { this.read_local_data() }))
                        } else {
                            Poll::Ready(Err(ReceiveError::Closed))
                        }
                    }
                    Poll::Pending => {
                        if !this.sig.will_wake(cx.waker()) {
                            if acquire_internal(this.internal).recv_signal_exists(&this.sig) {
                                this.sig.register_waker(cx.waker());
                                Poll::Pending
                            } else {
                                this.state = FutureState::Done;
                                if this.sig.async_blocking_wait() {
                                    Poll::Ready(Ok(unsafe { this.read_local_data() }))
                                } else {
                                    Poll::Ready(Err(ReceiveError::Closed))
                                }
                            }
                        } else {
                            Poll::Pending
                        }
                    }
                },
                _ => {
                    if this.is_stream {
                        this.state = FutureState::Zero;
                        continue;
                    }
                    panic!("polled after result is already returned")
                }
            };
        }
    }
}
}
fn main() {}
