use vstd::prelude::*;
use core::mem::MaybeUninit;
verus! {
pub assume_specification<T> [core::mem::MaybeUninit::<T>::assume_init_drop] (_0: &mut core::mem::MaybeUninit<T>)
    requires old(_0).mem_contents() is Init,
    ensures final(_0).mem_contents() is Uninit;
pub assume_specification<T> [core::mem::MaybeUninit::<T>::as_mut_ptr] (_0: &mut core::mem::MaybeUninit<T>) -> *mut T
    ensures final(_0).mem_contents() == old(_0).mem_contents();

fn f<T>(d: T, c: bool) {
    let mut m = MaybeUninit::new(d);
    assert(m.mem_contents() is Init);
    let p = m.as_mut_ptr();
    if c {
        unsafe { m.assume_init_drop(); }
        assert(m.mem_contents() is Uninit);
    }
    // double drop must fail:
    unsafe { m.assume_init_drop(); }
}
}
fn main() {}
