// D4 (C16, C01): ReceiveStream re-arms its future with a signal that is still in its final state, so a
// spurious poll during a later wait yields the previous item again.  place as tests/d4_stream_stale_item.rs
use futures_core::Stream;
use std::pin::pin;
use std::sync::Arc;
use std::task::{Context, Poll, Wake, Waker};

struct Noop;
impl Wake for Noop {
    fn wake(self: Arc<Self>) {}
}

#[test]
fn stream_yields_each_value_once() {
    let (s, r) = kanal::bounded_async::<u64>(0);
    let w = Waker::from(Arc::new(Noop));
    let mut cx = Context::from_waker(&w);
    let mut st = pin!(r.stream());
    assert!(matches!(st.as_mut().poll_next(&mut cx), Poll::Pending));
    assert_eq!(s.try_send(1).unwrap(), true);
    assert!(matches!(st.as_mut().poll_next(&mut cx), Poll::Ready(Some(1))));
    // second wait: nothing has been sent
    assert!(matches!(st.as_mut().poll_next(&mut cx), Poll::Pending));
    // a spurious poll must stay pending: no value was sent
    match st.as_mut().poll_next(&mut cx) {
        Poll::Pending => {}
        other => panic!("spurious poll yielded {:?} although nothing was sent", other),
    }
    // and the next real value still arrives exactly once
    assert_eq!(s.try_send(2).unwrap(), true);
    assert!(matches!(st.as_mut().poll_next(&mut cx), Poll::Ready(Some(2))));
}
