// D2 (C05): Sender::send_option_timeout drops the value a second time after a blocked send was delivered.
// place as tests/d2_send_option_timeout_double_drop.rs; fails before the fix, passes after.
use std::sync::atomic::{AtomicUsize, Ordering};
use std::sync::Arc;
use std::time::Duration;

struct Tag(Arc<AtomicUsize>);
impl Drop for Tag {
    fn drop(&mut self) {
        self.0.fetch_add(1, Ordering::SeqCst);
    }
}

#[test]
fn delivered_value_is_dropped_once() {
    let drops = Arc::new(AtomicUsize::new(0));
    let (s, r) = kanal::bounded::<Tag>(0);
    let t = std::thread::spawn(move || {
        // let the sender block first, then take the value and keep it alive
        std::thread::sleep(Duration::from_millis(100));
        r.recv().unwrap()
    });
    let mut opt = Some(Tag(drops.clone()));
    let res = s.send_option_timeout(&mut opt, Duration::from_secs(5));
    assert_eq!(res, Ok(()));
    assert!(opt.is_none());
    let held = t.join().unwrap();
    // the receiver still holds the value: nothing may have been dropped yet
    assert_eq!(drops.load(Ordering::SeqCst), 0, "sender dropped a value the receiver owns");
    drop(held);
    assert_eq!(drops.load(Ordering::SeqCst), 1);
}
