// D3 (C16): a pending SendFuture re-polled with a different waker keeps the old waker registered, so the
// most recently supplied waker is never woken.  place as tests/d3_sendfuture_stale_waker.rs
use std::future::Future;
use std::pin::pin;
use std::sync::atomic::{AtomicUsize, Ordering};
use std::sync::Arc;
use std::task::{Context, Poll, Wake, Waker};

struct Count(AtomicUsize);
impl Wake for Count {
    fn wake(self: Arc<Self>) {
        self.0.fetch_add(1, Ordering::SeqCst);
    }
}

#[test]
fn latest_waker_is_the_one_woken() {
    let (s, r) = kanal::bounded_async::<u64>(0);
    let a = Arc::new(Count(AtomicUsize::new(0)));
    let b = Arc::new(Count(AtomicUsize::new(0)));
    let wa = Waker::from(a.clone());
    let wb = Waker::from(b.clone());
    let mut fut = pin!(s.send(7));
    assert!(matches!(fut.as_mut().poll(&mut Context::from_waker(&wa)), Poll::Pending));
    // spurious poll with a different waker: must stay pending and switch to the new waker
    assert!(matches!(fut.as_mut().poll(&mut Context::from_waker(&wb)), Poll::Pending));
    // a receiver takes the value: the pending send must be woken through the waker it was last polled with
    assert_eq!(r.try_recv().unwrap(), Some(7));
    assert_eq!(b.0.load(Ordering::SeqCst), 1, "the most recently supplied waker was not woken");
    assert_eq!(a.0.load(Ordering::SeqCst), 0, "a stale waker was woken");
    assert!(matches!(fut.as_mut().poll(&mut Context::from_waker(&wb)), Poll::Ready(Ok(()))));
}
