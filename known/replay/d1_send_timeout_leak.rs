// D1 (C05, C13): Sender::send_timeout leaks the value on the Timeout path.
// place as tests/d1_send_timeout_leak.rs in a copy of the crate; fails before the fix, passes after.
use std::sync::atomic::{AtomicUsize, Ordering};
use std::sync::Arc;
use std::time::Duration;

struct Tag(Arc<AtomicUsize>);
impl Drop for Tag {
    fn drop(&mut self) {
        self.0.fetch_add(1, Ordering::SeqCst);
    }
}

#[test]
fn send_timeout_drops_value_exactly_once_on_timeout() {
    let drops = Arc::new(AtomicUsize::new(0));
    let (s, _r) = kanal::bounded::<Tag>(0);
    let res = s.send_timeout(Tag(drops.clone()), Duration::from_millis(10));
    assert_eq!(res, Err(kanal::SendErrorTimeout::Timeout));
    // "the value is back with, or dropped once by, the sender" -- send_timeout takes the value by move,
    // so it must have been dropped exactly once by now
    assert_eq!(drops.load(Ordering::SeqCst), 1, "value leaked on the Timeout path");
}
