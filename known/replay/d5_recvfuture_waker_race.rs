// D5 (C16, supports C07): ReceiveFuture::poll replaces the registered waker AFTER the temporary lock guard
// of `acquire_internal(..).recv_signal_exists(..)` has been dropped, while a sender that pops the signal
// under the lock reads that waker in Signal::wake: an unsynchronised write/read pair (data race).
// place as tests/d5_recvfuture_waker_race.rs and run under Miri:
//   cargo +nightly miri test --test d5_recvfuture_waker_race
// Before the fix Miri reports "Data race detected"; after the fix the test passes under Miri.
use std::future::Future;
use std::pin::pin;
use std::sync::atomic::{AtomicBool, AtomicUsize, Ordering};
use std::sync::Arc;
use std::task::{Context, Poll, Wake, Waker};

struct Count(AtomicUsize);
impl Wake for Count {
    fn wake(self: Arc<Self>) {
        self.0.fetch_add(1, Ordering::SeqCst);
    }
}
static GO: AtomicBool = AtomicBool::new(false);

#[test]
fn waker_is_replaced_under_the_lock() {
    let (s, r) = kanal::bounded_async::<u64>(0);
    let t = std::thread::spawn(move || {
        // Relaxed: deliberately no happens-before edge from the receiver's second poll to this thread
        while !GO.load(Ordering::Relaxed) {
            std::thread::yield_now();
        }
        while !s.try_send(1).unwrap() {
            std::thread::yield_now();
        }
    });
    let a = Waker::from(Arc::new(Count(AtomicUsize::new(0))));
    let b = Waker::from(Arc::new(Count(AtomicUsize::new(0))));
    let mut fut = pin!(r.recv());
    assert!(matches!(fut.as_mut().poll(&mut Context::from_waker(&a)), Poll::Pending));
    // spurious poll with a different waker while still listed: the waker is replaced
    assert!(matches!(fut.as_mut().poll(&mut Context::from_waker(&b)), Poll::Pending));
    GO.store(true, Ordering::Relaxed);
    t.join().unwrap();
    assert!(matches!(fut.as_mut().poll(&mut Context::from_waker(&b)), Poll::Ready(Ok(1))));
}
